"""C19 - attribute maps are finite maps; attribute paths are canonical.

Decided (structural necessary conditions):
R1  a map entry holds private copies only: name from a string duplication,
    value from a memory duplication of the caller's bytes with the very
    length stored as value_len; nobody else writes those fields.
R2  lookups return an entry only on the equal edge of the name comparison,
    typed lookups additionally only on the equal edge of the type comparison;
    each typed public getter asks for its own type.
R3  add replaces (deletes the same name) and copies before it releases; clone
    and add_all go through add; equal compares count, name+type, length and
    bytes; del unlinks before it destroys.
R4  path component array bounded (shared with C10.R6).
Not decided: equivalence with a mathematical finite map over all histories,
print/parse round trip.
"""
from .. import bounds as B
from .. import cfg as C
from ..model import Program
from ..report import Broken

DUP_STR = {"ut_strdup", "strdup", "ut_strndup"}
DUP_MEM = {"ut_memdup"}
TYPED = {"xcm_attr_map_get_bool": "xcm_attr_type_bool", "xcm_attr_map_get_int64": "xcm_attr_type_int64",
         "xcm_attr_map_get_double": "xcm_attr_type_double", "xcm_attr_map_get_str": "xcm_attr_type_str",
         "xcm_attr_map_get_bin": "xcm_attr_type_bin"}


def run(ctx):
    P = Program(("libxcm",))
    ctx.analysed = {"units": len(P.units), "functions": len(P.functions)}
    ctx.explanation = ("Who-may-write and value-origin checks on struct attr, dominance checks on the lookup functions, "
                       "ordering checks in add/del/equal, and the bounded-write analysis of the path parser.")
    ctx.trust("ut_strdup/ut_memdup return fresh copies (common/util.c)")
    fns = P.fns_in("core/xcm_attr_map.c")
    if len(fns) < 25:
        raise Broken("xcm_attr_map.c: only %d functions" % len(fns))

    # ---------------------------------------------------------------- R1
    r1 = ctx.rule("C19.R1", "map entries hold private copies: name <- strdup, value <- memdup(v, n), value_len <- n")
    writes = {"name": [], "value": [], "value_len": [], "type": []}
    for f in P.functions:
        # initialiser form
        for nid, n in f.nodes.items():
            if n["k"] == "init" and n.get("record") == "attr":
                for fld, e in zip(n["fields"], n["elems"]):
                    if fld in writes and f.nodes[e]["k"] != "zeroinit":
                        writes[fld].append((f, e, nid))
        for b, i, e, lhs, rhs, op in f.stores():
            ln = f.sn(lhs)
            if ln["k"] == "member" and ln.get("record") == "attr" and ln["field"] in writes:
                writes[ln["field"]].append((f, rhs, e))
    for fld in writes:
        for f, e, at in writes[fld]:
            r1.instance("%s.%s in %s" % ("attr", fld, f.name))
    r1.floor(4, "writes to struct attr")
    mem_len = None
    for f, e, at in writes["name"]:
        n = f.sn(e) if e is not None else None
        if n and n["k"] == "call" and n.get("callee") in DUP_STR:
            r1.ok("attr.name = %s in %s" % (f.show(e), f.name), "duplicating call")
        else:
            r1.violation("%s:attr.name" % f.name, "entry name is not a private copy: %s" % (f.show(e) if e else "?"), loc=f.loc(at))
    for f, e, at in writes["value"]:
        n = f.sn(e) if e is not None else None
        if n and n["k"] == "call" and n.get("callee") in DUP_MEM and len(n["args"]) == 2:
            r1.ok("attr.value = %s in %s" % (f.show(e), f.name), "duplicating call")
            mem_len = (f, f.show(f.strip(n["args"][1])))
        else:
            r1.violation("%s:attr.value" % f.name, "entry value is not a private copy: %s" % (f.show(e) if e else "?"), loc=f.loc(at))
    # NULL is how the getters say "no such attribute": the duplicating call that produces a stored value must have no
    # path that returns NULL (an empty binary value is a value)
    from .. import seq as S
    for f, e, at in writes["value"]:
        n = f.sn(e) if e is not None else None
        if not (n and n["k"] == "call"):
            continue
        defs, _ = P.callees(f, f.strip(e))
        for d in defs:
            r1.instance("%s never returns NULL" % d.name)
            cls = set()

            class Ret(S.SeqRule):
                def inline(s2, fn, nid, callee):
                    return False

                def on_exit(s2, fn, st, ret_nid, ret_cls, top):
                    if top:
                        cls.add(ret_cls)
            S.run(Ret(P), d)
            if not cls:
                raise Broken("C19.R1: no exit of %s explored" % d.name)
            if cls & {S.ZERO, S.NONPOS}:
                r1.violation("%s:returns-NULL" % d.name, "%s, which produces the stored copy of an attribute value, has a path that returns NULL: the entry exists but "
                             "xcm_attr_map_get() answers NULL - the answer for an absent attribute - and clone/add_all abort on it" % d.name, loc=d.file)
            else:
                r1.ok("%s has no path returning NULL (allocation failure aborts)" % d.name, "return classes over all paths")
    for f, e, at in writes["value_len"]:
        t = f.show(f.strip(e)) if e is not None else "?"
        if mem_len and mem_len[0] is f and mem_len[1] == t:
            r1.ok("attr.value_len = %s, the length copied" % t, "same expression as the memdup length")
        else:
            r1.violation("%s:attr.value_len" % f.name, "stored length %s is not the length copied (%s)" % (t, mem_len[1] if mem_len else "?"), loc=f.loc(at))
    for f, e, at in writes["type"]:
        n = f.sn(e) if e is not None else None
        if n and n["k"] == "ref" and n["dk"] == "param":
            r1.ok("attr.type = parameter %s" % n["name"])
        else:
            r1.violation("%s:attr.type" % f.name, "stored type is not the caller's type: %s" % (f.show(e) if e else "?"), loc=f.loc(at))

    # stored copies are never written through afterwards
    from .. import bounds as B2
    for f in P.fns_in("core/xcm_attr_map.c"):
        for c in f.calls():
            n = f.nodes[c]
            nm = n.get("callee")
            if nm in B2.SINKS:
                di = B2.SINKS[nm][0]
                if di < len(n["args"]):
                    d = n["args"][di]
                    fl = f.fields_of(d)
                    if fl and fl[-1] in ("value", "name") and any(m.get("record") == "attr" for x in f.walk(d) for m in [f.nodes[x]] if m["k"] == "member"):
                        r1.violation("%s:%s(attr.%s)" % (f.name, nm, fl[-1]), "a stored %s is modified in place: the entry no longer is a copy of "
                                     "what one add supplied (length and bytes can disagree)" % fl[-1], loc=f.loc(c))
    r1.ok("no function writes through attr.name / attr.value after creation", "sink scan of xcm_attr_map.c")

    # ---------------------------------------------------------------- R2
    r2 = ctx.rule("C19.R2", "lookups return an entry only on the equal edge of the name (and, typed, the type) comparison")
    for name, typed in (("lookup_attr", False), ("lookup_attr_with_type", True)):
        f = P.fn(name, "xcm_attr_map.c")
        r2.instance(name)
        check_lookup(f, r2, typed)
    g = P.fn("lookup_value_with_type", "xcm_attr_map.c")
    r2.instance("lookup_value_with_type")
    passes = False
    for c in g.calls("lookup_attr_with_type"):
        a = [g.sn(x) for x in g.nodes[c]["args"]]
        if len(a) == 3 and all(x["k"] == "ref" and x["dk"] == "param" for x in a) and [x["name"] for x in a] == [p["name"] for p in g.params]:
            passes = True
    if passes:
        r2.ok("lookup_value_with_type forwards (map, name, type) unchanged")
    else:
        r2.violation("lookup_value_with_type:args", "does not forward its (map, name, type) to the typed lookup", loc=g.file)
    for name, ty in TYPED.items():
        f = P.fn(name)
        r2.instance(name)
        ok = False
        for c in f.calls():
            n = f.nodes[c]
            if n.get("callee") in ("lookup_value_with_type", "lookup_attr_with_type") and len(n["args"]) == 3:
                t = f.sn(n["args"][2])
                a0, a1 = f.sn(n["args"][0]), f.sn(n["args"][1])
                if t["k"] == "ref" and t["name"] == ty and a0.get("name") == f.params[0]["name"] and a1.get("name") == f.params[1]["name"]:
                    ok = True
        if ok:
            r2.ok("%s asks for %s" % (name, ty))
        else:
            r2.violation("%s:type" % name, "typed getter does not look up with %s" % ty, loc=f.file)
    # the untyped get reports the stored type and length
    f = P.fn("xcm_attr_map_get")
    r2.instance("xcm_attr_map_get")
    outs = {}
    for b, i, e, lhs, rhs, op in f.stores():
        ln = f.sn(lhs)
        if ln["k"] == "un" and ln["op"] == "*" and rhs is not None:
            rn = f.sn(rhs)
            outs[f.sn(ln["sub"]).get("name")] = rn.get("field")
    if outs.get(f.params[2]["name"]) == "type" and outs.get(f.params[3]["name"]) == "value_len":
        r2.ok("xcm_attr_map_get reports attr->type and attr->value_len")
    else:
        r2.violation("xcm_attr_map_get:outs", "type/length out-parameters are not the stored type/length: %s" % outs, loc=f.file)

    # ---------------------------------------------------------------- R3
    r3 = ctx.rule("C19.R3", "add replaces and copies before releasing; clone/add_all go through add; equal compares count, type, length, bytes; del unlinks then destroys")
    f = P.fn("xcm_attr_map_add")
    r3.instance("xcm_attr_map_add")
    order = []
    for b, i, e in ordered_elems(f):
        n = f.nodes[e]
        if n["k"] == "call" and n.get("callee") in ("xcm_attr_map_del", "attr_create"):
            order.append((n["callee"], e))
    names = [x[0] for x in order]
    if "xcm_attr_map_del" not in names or "attr_create" not in names:
        r3.violation("xcm_attr_map_add:replace", "add does not delete an existing entry of the same name / does not create a copy", loc=f.file)
    else:
        d = f.nodes[[e for n_, e in order if n_ == "xcm_attr_map_del"][0]]
        a = [f.sn(x).get("name") for x in d["args"]]
        if a != [f.params[0]["name"], f.params[1]["name"]]:
            r3.violation("xcm_attr_map_add:del-args", "deletes %s instead of (map, name)" % a, loc=f.file)
        elif names.index("attr_create") > names.index("xcm_attr_map_del"):
            r3.violation("xcm_attr_map_add:copy-after-free", "the old entry is destroyed before the new value is copied: a value obtained from the map itself is read after free", loc=f.file)
        else:
            r3.ok("add copies (attr_create) and then deletes the old entry of the same name")
        c = f.nodes[[e for n_, e in order if n_ == "attr_create"][0]]
        a = [f.sn(x).get("name") for x in c["args"]]
        if a != [p["name"] for p in f.params[1:]]:
            r3.violation("xcm_attr_map_add:create-args", "attr_create gets %s instead of the caller's (name, type, value, len)" % a, loc=f.file)
        else:
            r3.ok("attr_create receives the caller's (name, type, value, len)")
    # every path of add creates a fresh entry and links it
    class AddPath(C.Rule):
        def initial(self, fn):
            return (False, False)

        def elem(self, fn, st, nid, blk, idx):
            n = fn.nodes[nid]
            if n["k"] == "call" and n.get("callee") == "attr_create":
                return (True, st[1])
            if n["k"] == "call" and n.get("callee") == "xcm_attr_map_del":
                return (st[0], True)
            return None

        def at_exit(self, fn, st, blk):
            if not (st[0] and st[1]):
                r3.violation("xcm_attr_map_add:path-without-replace", "a path of add returns without deleting the old entry and creating a "
                             "fresh copy (created=%s, deleted=%s)" % st, loc=fn.file)
    C.explore(f, AddPath())
    g = P.fn("copy_attr_cb", "xcm_attr_map.c")
    r3.instance("copy_attr_cb")
    ok = False
    for c in g.calls("xcm_attr_map_add"):
        a = [g.sn(x).get("name") for x in g.nodes[c]["args"][1:]]
        if a == [p["name"] for p in g.params[:4]]:
            ok = True
    if ok:
        r3.ok("clone/add_all copy each entry through xcm_attr_map_add with unchanged (name, type, value, len)")
    else:
        r3.violation("copy_attr_cb:args", "entries are not copied through xcm_attr_map_add unchanged", loc=g.file)
    for nm in ("xcm_attr_map_clone", "xcm_attr_map_add_all"):
        h = P.fn(nm)
        r3.instance(nm)
        if any(True for c in h.calls("xcm_attr_map_foreach") if h.sn(h.nodes[c]["args"][1]).get("name") == "copy_attr_cb"):
            r3.ok("%s iterates the source with copy_attr_cb" % nm)
        else:
            r3.violation("%s:copy" % nm, "does not copy through copy_attr_cb", loc=h.file)
    # foreach hands out every field of the entry
    h = P.fn("xcm_attr_map_foreach")
    r3.instance("xcm_attr_map_foreach")
    ok = False
    for c in h.calls():
        n = h.nodes[c]
        if not n.get("callee") and len(n["args"]) == 5:
            flds = [h.sn(a).get("field") for a in n["args"][:4]]
            if flds == ["name", "type", "value", "value_len"]:
                ok = True
    if ok:
        r3.ok("foreach passes (name, type, value, value_len) of each entry")
    else:
        r3.violation("xcm_attr_map_foreach:args", "callback does not receive (name, type, value, value_len)", loc=h.file)
    # equal
    e_ = P.fn("xcm_attr_map_equal")
    r3.instance("xcm_attr_map_equal")
    atoms = set()
    for b in e_.blocks.values():
        if b.term and b.term.get("cond") is not None:
            l, op, r = C.cond_atom(e_, b.term["cond"], True)
            ls = e_.show(l)
            rs = e_.show(r) if not isinstance(r, tuple) else str(r[1])
            fs = [s for s, lab in C.edges(e_, b) if returns_const(e_, s, 0)]
            if not fs:
                continue
            # the false-returning edge must be the *disequality* edge
            fl = [lab for s, lab in C.edges(e_, b) if returns_const(e_, s, 0)]
            diseq = (op == "!=" and "T" in fl) or (op == "==" and "F" in fl)
            if "size" in ls and "size" in rs and op in ("!=", "=="):
                if diseq:
                    atoms.add("count")
                else:
                    r3.violation("xcm_attr_map_equal:count-op", "entry counts are not compared for inequality", loc=e_.loc(b.term["cond"]))
            if "value_len" in ls and "value_len" in rs:
                if diseq:
                    atoms.add("length")
                else:
                    r3.violation("xcm_attr_map_equal:length-op", "value lengths are compared with '%s' instead of for inequality: a value that is a "
                                 "prefix of the other compares equal" % op, loc=e_.loc(b.term["cond"]))
            if "memcmp" in ls and diseq:
                m = e_.sn(l)
                if m["k"] == "call" and len(m["args"]) == 3 and "value_len" in e_.show(m["args"][2]) and \
                        e_.sn(m["args"][0]).get("field") == "value" and e_.sn(m["args"][1]).get("field") == "value":
                    atoms.add("bytes")
            if ("attr_b" in ls or "attr_b" in rs) and op in ("==", "!="):
                atoms.add("present")
    for c in e_.calls("lookup_attr_with_type"):
        a = e_.nodes[c]["args"]
        if e_.sn(a[1]).get("field") == "name" and e_.sn(a[2]).get("field") == "type":
            atoms.add("name+type")
    need = {"count", "length", "bytes", "present", "name+type"}
    if need <= atoms:
        r3.ok("equal compares entry count, presence by name and type, value length and value bytes")
    else:
        r3.violation("xcm_attr_map_equal:atoms", "equality does not compare: %s" % sorted(need - atoms), loc=e_.file)
    # del: unlink before destroy, only when found
    d_ = P.fn("xcm_attr_map_del")
    r3.instance("xcm_attr_map_del")
    dest = list(d_.calls("attr_destroy"))
    unlink = [e for b, i, e, lhs, rhs, op in d_.stores() if "le_prev" in d_.show(lhs) or "le_next" in d_.show(lhs)]
    if dest and unlink and d_.where()[max(unlink)] <= d_.where()[dest[0]] or (dest and unlink and position(d_, unlink[-1]) < position(d_, dest[0])):
        r3.ok("del unlinks the entry and then destroys it")
    else:
        r3.violation("xcm_attr_map_del:order", "entry is not unlinked before it is destroyed", loc=d_.file)
    ad = P.fn("attr_destroy", "xcm_attr_map.c")
    r3.instance("attr_destroy")
    freed = {ad.sn(ad.nodes[c]["args"][0]).get("field") or ad.sn(ad.nodes[c]["args"][0]).get("name") for c in ad.calls("ut_free")}
    if {"name", "value"} <= freed:
        r3.ok("attr_destroy frees name, value and the entry")
    else:
        r3.violation("attr_destroy:free", "entry destruction does not free %s" % sorted({"name", "value"} - freed), loc=ad.file)

    # ---------------------------------------------------------------- R4
    r4 = ctx.rule("C19.R4", "path parser: every array access within bounds (num_comps <= ATTR_PATH_COMP_MAX invariant)")
    eng = B.Engine(P)
    rec = P.record("attr_path")
    comps = [x for x in rec["fields"] if x["name"] == "comps"]
    if not comps or not comps[0].get("alen"):
        raise Broken("anchor vanished: attr_path.comps")
    eng.invariants[("attr_path", "num_comps")] = (0, comps[0]["alen"])
    for f in P.fns_in("core/attr_path.c"):
        r4.instance(f.name)
    r4.floor(15, "functions of attr_path.c")
    seen = set()
    for f in [x for x in P.fns_in("core/attr_path.c") if not x.static]:
        rq, unp = eng.analyse(f)
        for r in rq:
            if r.origin["key"] in seen:
                continue
            seen.add(r.origin["key"])
            r4.violation(r.origin["key"], "needs %s <= %s, not established from %s" % (B.show_lin(r.lhs), B.show_lin(r.rhs), f.name), loc=r.origin["loc"])
    for f, (rq, unp) in eng.memo.items():
        if f.file.endswith("attr_path.c"):
            for u in unp:
                from .C10 import unreachable_formatter
                why = unreachable_formatter(P, f, u)
                if why:
                    r4.note("not armed: %s - %s" % (u["key"], why))
                    continue
                r4.violation(u["key"], "access not provably within bounds: %s <= %s (in %s)" % (u["size"], u["cap"], f.name), loc=u["loc"])
    r4.obligations += eng.stats["proved"]
    r4.discharged += eng.stats["proved"]
    for k, how, sz, cap in eng.sink_log[:6]:
        if how == "proved":
            r4.samples.append({"obligation": "%s: %s <= %s" % (k, sz, cap), "discharged_by": "difference facts / record invariant"})

    # ---------------------------------------------------------------- R5
    r5 = ctx.rule("C19.R5", "path parser: an index component that does not fit its type is rejected, not wrapped")
    check_index_range(P, r5)


def ordered_elems(f):
    """elements in a topological-ish order of blocks (clang numbers blocks in
    reverse source order: higher id first)"""
    for b in sorted(f.blocks.values(), key=lambda b: -b.id):
        for i, e in enumerate(b.elems):
            yield b, i, e


def position(f, nid):
    b, i = f.where()[nid]
    return (-b, i)


def returns_const(f, b, v, depth=0):
    steps = 0
    while steps < 5:
        steps += 1
        blk = f.blocks[b]
        for e in blk.elems:
            n = f.nodes[e]
            if n["k"] == "return":
                return n.get("sub") is not None and C.const_of(f, n["sub"]) == v
        es = C.edges(f, blk)
        if len(es) != 1:
            return False
        b = es[0][0]
    return False


def check_lookup(f, rule, typed):
    """every return of a non-NULL entry is on the equal edge of
    strcmp(entry->name, <name param>) == 0 (and of entry->type == <type param>)"""
    dom = C.dominators(f)
    name_p = f.params[1]["name"]
    type_p = f.params[2]["name"] if typed else None
    # blocks on the T edge of the name comparison
    name_t = set()
    type_ok_expr = False
    for b in f.blocks.values():
        if not b.term or b.term.get("cond") is None:
            continue
        l, op, r = C.cond_atom(f, b.term["cond"], True)
        ln = f.sn(l)
        if ln["k"] == "call" and ln.get("callee") == "strcmp" and op == "==" and C.const_of(f, r) == 0:
            a = [f.sn(x) for x in ln["args"]]
            flds = {x.get("field") for x in a}
            nms = {x.get("name") for x in a}
            if "name" in flds and name_p in nms:
                for s, lab in C.edges(f, b):
                    if lab == "T":
                        name_t.add(s)
    if not name_t:
        rule.violation("%s:name-compare" % f.name, "no exact comparison of the entry name with the requested name", loc=f.file)
        return
    nret = 0
    for b, i, e in f.elems():
        n = f.nodes[e]
        if n["k"] != "return" or n.get("sub") is None:
            continue
        v = f.sn(n["sub"])
        if v.get("cv") == 0 or (v["k"] == "int" and v["v"] == 0):
            continue
        nret += 1
        # dominated by a name-equal successor
        if not any(t in dom[b.id] for t in name_t):
            rule.violation("%s:return" % f.name, "an entry is returned without the name having compared equal", loc=f.loc(e))
            continue
        if typed:
            good = False
            if v["k"] == "cond":
                l, op, r = C.cond_atom(f, v["c"], True)
                if op == "==" and not isinstance(r, tuple):
                    a, b2 = f.sn(l), f.sn(r)
                    if {a.get("field"), b2.get("field")} == {"type", None} and type_p in (a.get("name"), b2.get("name")):
                        tv, fv = f.sn(v["tv"]), f.sn(v["fv"])
                        if (fv.get("cv") == 0 or fv.get("v") == 0) and tv["k"] == "ref":
                            good = True
            else:
                for d in dom[b.id]:
                    blk = f.blocks[d]
                    if blk.term and blk.term.get("cond") is not None:
                        l, op, r = C.cond_atom(f, blk.term["cond"], True)
                        if op == "==" and not isinstance(r, tuple):
                            a, b2 = f.sn(l), f.sn(r)
                            if {a.get("field"), b2.get("field")} == {"type", None} and type_p in (a.get("name"), b2.get("name")):
                                ts = [s for s, lab in C.edges(f, blk) if lab == "T"]
                                if ts and ts[0] in dom[b.id]:
                                    good = True
            if not good:
                rule.violation("%s:type" % f.name, "an entry is returned without its type having compared equal to the requested type", loc=f.loc(e))
                continue
        rule.ok("%s returns an entry only after the name%s compared equal" % (f.name, " and type" if typed else ""), "dominance")
    if nret == 0:
        raise Broken("%s: no entry-returning path found" % f.name)


def check_index_range(P, rule):
    """`a[18446744073709551616]` must not be `a[0]`: the number in an index component is either converted by the strto*
    family with the saturation value (LONG_MAX / ULONG_MAX) or errno == ERANGE tested afterwards, or accumulated digit
    by digit under a guard that compares the accumulator (or the digit count) with a constant inside the loop."""
    LIMITS = {0x7fffffffffffffff, 0xffffffffffffffff, 0x7fffffff, 0xffffffff}
    n = 0
    for f in P.fns_in("core/attr_path.c"):
        conv = [c for c in f.calls() if (f.nodes[c].get("callee") or "") in ("strtol", "strtoul", "strtoll", "strtoull")]
        cyc = set()
        for comp in C.sccs(f):
            if len(comp) > 1 or any(b in f.blocks[b].succs for b in comp):
                cyc |= set(comp)
        acc = []
        for b, i, e, lhs, rhs, op in f.stores():
            if b.id not in cyc or rhs is None:
                continue
            ln = f.nodes[f._strip0(lhs)]
            if ln["k"] != "ref":
                continue
            mul = [x for x in f.walk(rhs) if f.nodes[x]["k"] == "bin" and f.nodes[x]["op"] == "*" and C.const_of(f, f.nodes[x]["r"]) == 10
                   and f.nodes[f._strip0(f.nodes[x]["l"])].get("name") == ln["name"]]
            if mul or (op == "*=" and C.const_of(f, rhs) == 10):
                acc.append((ln["name"], e, b.id))
        if not conv and not acc:
            continue
        n += 1
        rule.instance("%s: %s" % (f.qname, "strto*" if conv else "digit loop"))
        ok = False
        conds = list(C.cond_blocks(f))
        if conv:
            for b, cond in conds:
                l, op, r = C.cond_atom(f, cond, True)
                cv = r[1] if isinstance(r, tuple) else C.const_of(f, r)
                if cv in LIMITS or (cv == 34 and f.show(l) == "errno"):
                    ok = True
        for name, e, bid in acc:
            for b, cond in conds:
                if b.id not in cyc:
                    continue
                l, op, r = C.cond_atom(f, cond, True)
                if isinstance(l, tuple):
                    continue
                cv = r[1] if isinstance(r, tuple) else C.const_of(f, r)
                ln = f.nodes[f._strip0(l)]
                counters = {f.nodes[f._strip0(m["sub"])].get("name") for m in f.nodes.values() if m["k"] == "un" and m["op"] in ("++", "post++")}
                if cv is not None and ln["k"] == "ref" and ln.get("dk") == "local" and op in ("<", "<=", ">", ">=") and \
                        (ln.get("name") == name or (ln.get("name") in counters and cv <= 19)):
                    ok = True        # the accumulator, or the count of digits taken, is bounded inside the loop
        if ok:
            rule.ok("%s rejects a number that does not fit" % f.qname, "saturation / ERANGE test, or a bounded accumulation loop")
        else:
            rule.violation("%s:index-wraps" % f.name, "%s turns the digits of an index component into a number without any range test: a value beyond the type wraps, so "
                           "`a[18446744073709551616]` names `a[0]` and an index of 2^63 prints as a negative number that does not parse back" % f.name, loc=f.file)
    if n < 1:
        raise Broken("C19.R5: the index parser of attr_path.c was not found")
