"""C17 - traffic counters tell the truth (structural clauses).

R1  counters only grow: every store to a counter slot is `+= v` with v >= 0
    established on the path, or `++`; never `=`, `-=`, `--`; nobody outside
    the transports writes them.
R2  from_app counters move only after acceptance (decided in C03.R1+R2).
R3  to_app bytes equal what the receive op returns on that path.
R4  *_lower message counters move only on frame completion.
R5  attribute xcm.<c> is served by the getter that reads slot <c>; the
    transports' get_cnt returns the slot it is asked for; byte-stream
    sockets register byte counters only.
"""
from .. import bounds as B
from .. import cfg as C
from .. import tp as TP
from ..model import Program
from ..report import Broken


def unsigned_origin(f, nid, depth):
    """every value the expression can take comes from an unsigned-typed
    expression (a length) or a non-negative constant"""
    if depth > 3:
        return False
    # walk through integral casts looking at the innermost typed value
    x = nid
    while True:
        n = f.nodes[x]
        if n.get("uns"):
            return True
        if n["k"] in ("paren", "opaque") or (n["k"] == "cast" and n.get("ck") in ("IntegralCast", "LValueToRValue", "NoOp")):
            x = n["sub"]
            continue
        break
    n = f.nodes[x]
    if "cv" in n:
        return n["cv"] >= 0
    if n["k"] == "cond":
        return unsigned_origin(f, n["tv"], depth + 1) and unsigned_origin(f, n["fv"], depth + 1)
    if n["k"] == "stmtexpr" and n.get("sub"):
        return unsigned_origin(f, n["sub"], depth + 1)
    if n["k"] == "ref" and n["dk"] == "local":
        defs = []
        for m in f.nodes.values():
            if m["k"] == "decl":
                for v in m["vars"]:
                    if v["did"] == n["did"]:
                        if v.get("init") is None:
                            continue
                        defs.append(v["init"])
            elif m["k"] == "bin" and m["op"] == "=" and f.sn(m["l"]).get("did") == n["did"]:
                defs.append(m["r"])
            elif m["k"] == "bin" and m["op"] != "=" and m["op"].endswith("=") and m["op"] not in ("==", "!=", "<=", ">=") and f.sn(m["l"]).get("did") == n["did"]:
                return False
        return bool(defs) and all(unsigned_origin(f, d, depth + 1) for d in defs)
    return False


def run(ctx):
    P = Program(("libxcm",))
    ctx.analysed = {"units": len(P.units), "functions": len(P.functions)}
    ctx.explanation = ("Who-may-write and operator checks on every counter store with the sign of the operand proved from path "
                       "facts, equality of the to_app increment with the returned value from path facts, dominance of completion "
                       "tests over message-counter updates, and a name-to-slot agreement check of the attribute registrations.")
    ctx.trust("clang 14 AST/CFG")
    eng = B.Engine(P)
    tables = TP.ops_tables(P)

    # ------------------------------------------------------------------ R1
    r1 = ctx.rule("C17.R1", "counters only grow: += non-negative or ++, never assigned or decreased")
    stores = []
    for f in P.functions:
        for b, i, e, lhs, rhs, op in f.stores():
            c = TP.is_counter_store(f, lhs)
            if c:
                stores.append((f, e, lhs, rhs, op, c))
    fbs = {}
    for f, e, lhs, rhs, op, c in stores:
        r1.instance("%s:%s%s" % (f.qname, c, op))
        if op in ("++", "post++"):
            r1.ok("%s: %s++" % (f.qname, c))
            continue
        if op != "+=":
            r1.violation("%s:%s:%s" % (f.name, c, op), "counter %s is modified with '%s'" % (c, op), loc=f.loc(e))
            continue
        fb = fbs.get(f) or fbs.setdefault(f, B.FnBounds(eng, f))
        v = fb.lin(rhs)
        F = fb.before.get(e, B.Facts())
        rt = f.nodes[f.strip(rhs)]
        if v is not None and fb.prove_le(F, B.lin_const(0), v):
            r1.ok("%s: %s += %s with %s >= 0" % (f.qname, c, f.show(rhs), f.show(rhs)), "path facts / unsigned type")
        elif unsigned_origin(f, rhs, 0):
            r1.ok("%s: %s += %s, a length of unsigned origin" % (f.qname, c, f.show(rhs)), "value origin: every definition is an unsigned length")
        else:
            r1.violation("%s:%s:sign" % (f.name, c), "counter %s is increased by %s, which is not known to be non-negative here" % (c, f.show(rhs)), loc=f.loc(e))
    r1.floor(30, "counter stores")
    # the arrays themselves are only written through such stores
    for f in P.functions:
        for c in f.calls():
            n = f.nodes[c]
            if n.get("callee") in ("memset", "memcpy") and TP.mentions_field(f, n["args"][0], "cnts"):
                r1.violation("%s:%s(cnts)" % (f.name, n["callee"]), "counter array overwritten wholesale", loc=f.loc(c))

    # ------------------------------------------------------------------ R3
    r3 = ctx.rule("C17.R3", "to_app bytes counted on a path equal the value the receive op returns on that path")
    recv_ops = []
    for t in tables:
        f = t.slots.get("receive")
        if f is not None and f not in recv_ops:
            recv_ops.append(f)
    n3 = 0
    for f in recv_ops:
        incs = [(e, rhs) for (g, e, lhs, rhs, op, c) in stores if g is f and c == "xcm_tp_cnt_to_app_bytes"]
        if not incs:
            r3.note("%s has no to_app update (delegates)" % f.qname)
            continue
        r3.instance(f.qname)
        n3 += 1
        fb = fbs.get(f) or fbs.setdefault(f, B.FnBounds(eng, f))
        for e, rhs in incs:
            inc = fb.lin(rhs)
            wb, wi = f.where()[e]
            nret = 0
            for b in C.reachable_blocks(f, wb):
                for i, x in enumerate(f.blocks[b].elems):
                    m = f.nodes[x]
                    if m["k"] != "return" or m.get("sub") is None or (b == wb and i < wi):
                        continue
                    nret += 1
                    rv = fb.lin(m["sub"])
                    F = fb.before.get(x, B.Facts())
                    if rv is not None and inc is not None and fb.prove_le(F, rv, inc) and fb.prove_le(F, inc, rv):
                        r3.ok("%s: returns %s = to_app increment" % (f.qname, f.show(m["sub"])), "linear equality from path facts")
                    else:
                        r3.violation("%s:to_app-vs-return" % f.name, "to_app_bytes grows by %s but %s is returned to the application"
                                     % (f.show(rhs), f.show(m["sub"])), loc=f.loc(x))
            if nret == 0:
                raise Broken("C17.R3: no return after the to_app update in %s" % f.name)
    if n3 < 5:
        raise Broken("C17.R3: only %d receive ops with to_app accounting" % n3)

    # from_app bytes equal what the send op reports as accepted
    send_ops = []
    for t in tables:
        f = t.slots.get("send")
        if f is not None and f not in send_ops:
            send_ops.append(f)
    n3b = 0
    for f in send_ops:
        incs = [(e, rhs) for (g, e, lhs, rhs, op, c) in stores if g is f and c == "xcm_tp_cnt_from_app_bytes"]
        if not incs:
            continue
        r3.instance(f.qname + " (from_app)")
        n3b += 1
        fb = fbs.get(f) or fbs.setdefault(f, B.FnBounds(eng, f))
        lenp = f.params[2]["name"]
        for e, rhs in incs:
            inc = fb.lin(rhs)
            wb, wi = f.where()[e]
            for b in C.reachable_blocks(f, wb):
                for i, x in enumerate(f.blocks[b].elems):
                    m = f.nodes[x]
                    if m["k"] != "return" or m.get("sub") is None or (b == wb and i < wi):
                        continue
                    rv = fb.lin(m["sub"])
                    F = fb.before.get(x, B.Facts())
                    if rv is not None and not rv[0] and rv[1] < 0:
                        continue        # failure after acceptance (connection broke)
                    if rv is not None and not rv[0] and rv[1] == 0:
                        want, wtxt = B.lin_term(lenp), "the whole message (%s)" % lenp
                    else:
                        want, wtxt = rv, "the accepted count (%s)" % f.show(m["sub"])
                    if inc is not None and want is not None and fb.prove_le(F, inc, want) and fb.prove_le(F, want, inc):
                        r3.ok("%s: from_app_bytes grows by %s" % (f.qname, wtxt), "linear equality from path facts")
                    else:
                        r3.violation("%s:from_app-vs-accepted" % f.name, "from_app_bytes grows by %s but the call reports %s as accepted"
                                     % (f.show(rhs), wtxt), loc=f.loc(e))
    if n3b < 4:
        raise Broken("C17.R3: only %d send ops with from_app accounting" % n3b)

    # ------------------------------------------------------------------ R4
    r4 = ctx.rule("C17.R4", "lower-layer message counters move only when a frame is complete")
    for (f, e, lhs, rhs, op, c) in stores:
        if c not in ("xcm_tp_cnt_to_lower_msgs", "xcm_tp_cnt_from_lower_msgs"):
            continue
        # only transports that frame messages themselves (use an mbuf)
        uses_mbuf = any(TP.mentions_field(f, x, "send_mbuf") or TP.mentions_field(f, x, "receive_mbuf") for x in f.nodes
                        if f.nodes[x]["k"] == "member")
        if not uses_mbuf:
            continue
        r4.instance("%s:%s" % (f.qname, c))
        b0 = f.where()[e][0]
        dom = C.dominators(f)
        good = False
        for d in dom[b0]:
            blk = f.blocks[d]
            if not blk.term or blk.term.get("cond") is None:
                continue
            txt = f.show(blk.term["cond"])
            if c.startswith("xcm_tp_cnt_to_lower"):
                hit = "mbuf_sent" in txt and "mbuf_wire_len" in txt
                l, op2, r = C.cond_atom(f, blk.term["cond"], True)
                want = "T" if op2 == "==" else ("F" if op2 == "!=" else None)
            else:
                hit = "mbuf_payload_left" in txt or "mbuf_is_complete" in txt
                l, op2, r = C.cond_atom(f, blk.term["cond"], True)
                if "mbuf_is_complete" in txt:
                    want = "T" if op2 == "!=" else "F"
                else:
                    want = "F" if op2 in (">", "!=") else ("T" if op2 in ("==", "<=") else None)
            if not hit or want is None:
                continue
            ss = [s for s, lab in C.edges(f, blk) if lab == want]
            if ss and (ss[0] in dom[b0] or ss[0] == b0):
                good = True
        # the bytes credited with the message are the complete payload length
        bytes_c = c.replace("_msgs", "_bytes")
        bs = [(e2, rhs2) for (g2, e2, lhs2, rhs2, op2_, c2) in stores if g2 is f and c2 == bytes_c and f.where()[e2][0] == b0]
        fb = fbs.get(f) or fbs.setdefault(f, B.FnBounds(eng, f))
        for e2, rhs2 in bs:
            v = fb.lin(rhs2)
            F = fb.before.get(e2, B.Facts())
            eq = False
            for tt in list(F.terms()) + ([list(v[0])[0]] if v and len(v[0]) == 1 else []):
                if tt.startswith("mbuf_complete_payload_len(") and v is not None and fb.prove_le(F, v, B.lin_term(tt)) and fb.prove_le(F, B.lin_term(tt), v):
                    eq = True
            if eq:
                r4.ok("%s: %s is credited with the complete payload length" % (f.qname, bytes_c), "equality facts")
            else:
                r4.violation("%s:%s:amount" % (f.name, bytes_c), "on frame completion %s grows by %s, which is not the frame's payload length"
                             % (bytes_c, f.show(rhs2)), loc=f.loc(e2))
        if good:
            r4.ok("%s: %s is updated only on the completion edge" % (f.qname, c), "dominance")
        else:
            r4.violation("%s:%s:completion" % (f.name, c), "%s is counted without a dominating frame-completion test" % c, loc=f.loc(e))
    r4.floor(4, "message counters of framing transports")

    # ------------------------------------------------------------------ R5
    r5 = ctx.rule("C17.R5", "attribute name <-> counter slot agreement; get_cnt returns the requested slot")
    names = {c["name"][len("xcm_tp_cnt_"):]: c["name"] for c in P.enum("xcm_tp_cnt")["constants"]}
    regs = 0
    bytestream_regs = set()
    for f in P.functions:
        for c in f.calls("attr_tree_add_value_node"):
            n = f.nodes[c]
            a = f.sn(n["args"][1])
            g = f.sn(n["args"][6])
            if a["k"] != "str" or not a["v"].startswith("xcm."):
                continue
            short = a["v"][4:]
            if short not in names:
                continue
            regs += 1
            r5.instance("%s in %s" % (a["v"], f.name))
            if "bytestream" in f.name:
                bytestream_regs.add(short)
            d = P.resolve_direct(f, g["name"]) if g["k"] == "ref" else None
            slot = None
            if d:
                for cc in d.calls("xcm_tp_socket_get_cnt"):
                    slot = d.sn(d.nodes[cc]["args"][1]).get("name")
            if slot == names[short]:
                r5.ok("%s is served from %s" % (a["v"], slot))
            else:
                r5.violation("%s:%s" % (f.name, a["v"]), "attribute %s is served from slot %s" % (a["v"], slot), loc=f.loc(c))
    if regs < 12:
        raise Broken("C17.R5: only %d counter attribute registrations" % regs)
    if any(x.endswith("_msgs") for x in bytestream_regs):
        r5.violation("bytestream:msgs", "byte-stream sockets register message counters: %s" % sorted(bytestream_regs), loc=None)
    elif len(bytestream_regs) == 4:
        r5.ok("byte-stream sockets register exactly the four byte counters")
    for t in tables:
        f = t.slots.get("get_cnt")
        if f is None:
            continue
        r5.instance("get_cnt:" + f.qname)
        ok = False
        for nid, n in f.nodes.items():
            if n["k"] == "return" and n.get("sub") is not None:
                v = f.sn(n["sub"])
                if v["k"] == "index" and TP.mentions_field(f, v["base"], "cnts") and f.sn(v["idx"]).get("dk") == "param":
                    ok = True
                if v["k"] == "call" and (v.get("callee") or "").startswith("xcm_tp_socket_get_cnt"):
                    a = f.sn(v["args"][1])
                    ok = a.get("dk") == "param"
        if ok:
            r5.ok("%s returns the slot it is asked for" % f.qname)
        else:
            r5.violation("%s:slot" % f.name, "get_cnt does not return cnts[<requested>]", loc=f.file)

    # ------------------------------------------------------------------ R6
    # from_lower must count what the lower layer delivered, not what fitted the caller's buffer: on a datagram
    # socket the real length is only known with MSG_TRUNC; the operand must be recv's own result
    r6 = ctx.rule("C17.R6", "from_lower_bytes counts the real length of what the lower layer delivered (datagram transports: recv with MSG_TRUNC)")
    n6 = 0
    for (f, e, lhs, rhs, op, c) in stores:
        if c != "xcm_tp_cnt_from_lower_bytes" or rhs is None:
            continue
        recvs = list(f.calls("recv"))
        if not recvs:
            continue
        n6 += 1
        r6.instance(f.qname)
        # operand: a local that holds recv's result
        rn = f.sn(rhs)
        src_ok = False
        flag_ok = True
        dgram = f.file.endswith("ux/xcm_tp_ux.c")
        for rc_ in recvs:
            par = f.parents().get(rc_)
            while par is not None and f.nodes[par]["k"] in ("cast", "paren"):
                par = f.parents().get(par)
            pn = f.nodes.get(par, {})
            holder = None
            if pn.get("k") == "decl":
                holder = [v["did"] for v in pn["vars"] if v.get("init") is not None and f.strip(v["init"]) == f.strip(rc_)]
                holder = holder[0] if holder else None
            elif pn.get("k") == "bin" and pn["op"] == "=":
                holder = f.sn(pn["l"]).get("did")
            if holder is not None and rn.get("did") == holder:
                src_ok = True
            fl = C.const_of(f, f.nodes[rc_]["args"][3])
            if dgram and not (fl is not None and fl & 0x20):
                flag_ok = False
        if src_ok and flag_ok:
            r6.ok("%s: from_lower_bytes += the result of recv()%s" % (f.qname, " with MSG_TRUNC (the datagram's real length)" if dgram else ""), "value origin + constant flag")
        elif not src_ok:
            r6.violation("%s:from_lower:operand" % f.name, "from_lower_bytes grows by %s, which is not the lower layer's own result" % f.show(rhs), loc=f.loc(e))
        else:
            r6.violation("%s:from_lower:truncated" % f.name, "recv() without MSG_TRUNC returns only what fitted the buffer: from_lower_bytes under-counts a truncated "
                         "message and disagrees with the sender's to_lower_bytes for good", loc=f.loc(e))
    if n6 < 2:
        raise Broken("C17.R6: only %d from_lower updates next to a recv()" % n6)
