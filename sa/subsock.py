"""E4: typestate of sub-sockets and locally created sockets, per the contract
of libxcm/tp/common/xcm_tp.h:

  create  -> UNINIT
  init    ok -> INITED ; fail -> UNINIT
  connect/server/accept  ok -> OPEN ; fail -> CLEAN  ("left in a cleaned-up
          state, close need not be called")
  close/cleanup  INITED|OPEN|LIVE -> CLEAN ; on CLEAN|UNINIT -> violation
  destroy UNINIT|CLEAN -> DEAD ; on INITED|OPEN|LIVE -> violation (leak);
          on DEAD -> violation (double destroy)
  any other use of DEAD -> violation (use after destroy)

LIVE is the entry state of close/cleanup ("initialised, possibly open,
possibly already removed (NULL)"); all xcm_tp_socket_* functions accept NULL.

Objects are (a) fields of type `struct xcm_socket *` of the private struct of
the socket the op works on (SELF), (b) locals of that type.  Static helpers of
the same unit are inlined with parameter bindings, so `deinit(s)`,
`remove_sub_socket(&us->tls_socket)` and `bind_sub_server(&us->ux_socket, a)`
act on the caller's objects.
"""
from . import cfg as C
from . import seq as S

UNINIT, INITED, OPEN, CLEAN, DEAD, LIVE, MOVED = "UNINIT", "INITED", "OPEN", "CLEAN", "DEAD", "LIVE", "MOVED"

EVENTS = {
    "xcm_tp_socket_init": "init", "xcm_tp_socket_connect": "open", "xcm_tp_socket_server": "open", "xcm_tp_socket_accept": "open",
    "xcm_tp_socket_close": "close", "xcm_tp_socket_cleanup": "close", "xcm_tp_socket_destroy": "destroy",
}
USES = {"xcm_tp_socket_send", "xcm_tp_socket_receive", "xcm_tp_socket_finish", "xcm_tp_socket_update", "xcm_tp_socket_get_cnt",
        "xcm_tp_socket_max_msg", "xcm_tp_socket_get_transport", "xcm_local_addr", "xcm_remote_addr", "xcm_tp_socket_set_local_addr"}


def is_sock_ptr(t):
    return (t or "").replace("const ", "").strip() in ("struct xcm_socket *", "struct xcm_socket *restrict", "struct xcm_socket *__restrict")


def is_sock_pp(t):
    return (t or "").strip() == "struct xcm_socket **"


class Sub(S.SeqRule):
    """user = (objs: frozenset of (key, state), binds: frozenset of ((fn name, param), value))"""
    max_depth = 3
    memo_calls = True

    def __init__(self, prog, root, rule, slot, never_fails=(), creators=None, helpers=None, init_of=None):
        super().__init__(prog)
        self.root, self.rule, self.slot = root, rule, slot
        self.never_fails = set(never_fails)
        self.creators = creators or {}
        self.helpers = helpers or {}
        self.init_of = init_of or {}
        self.reported = set()
        self.exits = 0
        self.events = 0

    # ----------------------------------------------------------------- helpers
    def user0(self, fn):
        binds = set()
        for i, p in enumerate(fn.params):
            if is_sock_ptr(p.get("t")):
                binds.add(((fn.name, p["name"]), "SELF" if i == 0 else "OTHER"))
        objs = set()
        if self.slot in ("connect", "server", "accept", "close", "cleanup", "data"):
            st0 = INITED if self.slot in ("connect", "server", "accept") else LIVE
            for fld in self.own_fields(fn):
                objs.add(("own:" + fld, st0))
        return (frozenset(objs), frozenset(binds))

    def own_fields(self, fn):
        """fields of type xcm_socket* of the transport's private record (found from the unit's records)"""
        out = []
        for r in fn.unit.records:
            if r["name"] and r["name"].endswith("_socket") and r["name"] != "xcm_socket":
                for fl in r["fields"]:
                    if is_sock_ptr(fl.get("type") or fl.get("t")):
                        out.append(fl["name"])
        return sorted(set(out))

    def get(self, st, key):
        for k, v in st.user[0]:
            if k == key:
                return v
        return None

    def setobj(self, user, key, val):
        objs = frozenset((k, v) for k, v in user[0] if k != key)
        if val is not None:
            objs = objs | {(key, val)}
        return (objs, user[1])

    def bind_of(self, st, fn, pname):
        for (f, p), v in st.user[1]:
            if f == fn.name and p == pname:
                return v
        return None

    def root_param(self, fn, nid, depth=0):
        """the parameter an expression's value is derived from (through locals), or None"""
        if depth > 6:
            return None
        for x in fn.walk(nid):
            n = fn.nodes[x]
            if n["k"] == "ref" and n["dk"] == "param":
                return n["name"]
        for x in fn.walk(nid):
            n = fn.nodes[x]
            if n["k"] == "ref" and n["dk"] == "local":
                for m in fn.nodes.values():
                    if m["k"] == "decl":
                        for v in m["vars"]:
                            if v["did"] == n["did"] and v.get("init") is not None:
                                r = self.root_param(fn, v["init"], depth + 1)
                                if r:
                                    return r
        return None

    def key_of(self, fn, st, nid):
        """object key designated by a socket-pointer expression, or None"""
        x = fn.strip(nid)
        n = fn.nodes[x]
        k = n["k"]
        if k == "member" and n["field"] and is_sock_ptr(n.get("t")):
            rp = self.root_param(fn, n["base"])
            who = self.bind_of(st, fn, rp) if rp else None
            if who == "SELF":
                return "own:" + n["field"]
            if who == "OTHER":
                return "other:" + n["field"]
            if isinstance(who, str) and who.startswith("local:"):
                return None         # a field of a socket we created ourselves: not tracked
            return None
        if k == "ref" and is_sock_ptr(n.get("t")):
            if n["dk"] == "param":
                b = self.bind_of(st, fn, n["name"])
                if b in ("SELF", "OTHER", None):
                    return None
                return b
            if n["dk"] == "local":
                key = "local:%s#%s" % (n["name"], n["did"])
                a = self.get(st, "alias:" + key)
                return a if a else key
        if k == "un" and n["op"] == "*":
            s = fn.sn(n["sub"])
            if s["k"] == "ref" and s["dk"] == "param":
                b = self.bind_of(st, fn, s["name"])
                if isinstance(b, str) and b.startswith("&"):
                    return b[1:]
        return None

    def _init_never_fails(self, fn, nid):
        """the init this call dispatches to (by the socket's protocol) cannot fail"""
        tgt = self.init_of.get(call_proto(fn, nid, self.helpers))
        return tgt is not None and tgt.name in self.never_fails

    def viol(self, fn, nid, key, msg):
        k = (self.root.name, key)
        if k in self.reported:
            return
        self.reported.add(k)
        self.rule.violation("%s:%s" % (self.root.name, key), msg, loc=fn.loc(nid) if nid is not None else fn.file)

    # ----------------------------------------------------------------- hooks
    def inline(self, fn, nid, callee):
        return callee.static and callee.file == self.root.file and callee is not self.root and callee.name not in self.creators

    def call_class(self, fn, st, nid, callees, exts):
        if callees and all(d.name in self.never_fails for d in callees):
            return S.NONZERO if "*" in (fn.nodes[nid].get("t") or "") else S.ZERO
        return None

    def on_call(self, fn, st, nid, callees, exts):
        n = fn.nodes[nid]
        name = n.get("callee") or ""
        user = st.user
        # inlined helper: bind parameters
        tgt = [d for d in callees if self.inline(fn, nid, d)]
        if tgt:
            d = tgt[0]
            binds = set(b for b in user[1] if b[0][0] != d.name)
            for p, a in zip(d.params, n["args"]):
                if is_sock_ptr(p.get("t")):
                    an = fn.sn(a)
                    if an["k"] == "ref" and an["dk"] == "param" and self.bind_of(st, fn, an["name"]) in ("SELF", "OTHER"):
                        binds.add(((d.name, p["name"]), self.bind_of(st, fn, an["name"])))
                    else:
                        key = self.key_of(fn, st, a)
                        if key:
                            binds.add(((d.name, p["name"]), key))
                elif is_sock_pp(p.get("t")):
                    an = fn.sn(a)
                    if an["k"] == "un" and an["op"] == "&":
                        key = self.key_of(fn, st, an["sub"])
                        if key:
                            binds.add(((d.name, p["name"]), "&" + key))
            return (user[0], frozenset(binds))
        if name == "xcm_tp_socket_create":
            return None         # result handled at the assignment
        ev = EVENTS.get(name)
        if ev:
            self.events += 1
            key = self.key_of(fn, st, n["args"][0]) if n["args"] else None
            if key is None:
                return None
            if key.startswith("other:"):
                if ev in ("close", "destroy"):
                    self.viol(fn, nid, key + ":" + ev, "%s %ss a sub-socket of the *other* socket (%s)" % (self.root.name, ev, key))
                return None
            cur = self.get(st, key)
            if cur and cur.startswith("?"):
                cur = cur[1:]
            if ev == "init":
                if cur not in (UNINIT,):
                    self.viol(fn, nid, key + ":init", "init on a socket in state %s" % cur)
                if self._init_never_fails(fn, nid):
                    return [(self.setobj(user, key, INITED), S.ZERO)]
                return [(self.setobj(user, key, INITED), S.ZERO), (self.setobj(user, key, UNINIT), S.NEG)]
            if ev == "open":
                if cur not in (INITED, LIVE):
                    self.viol(fn, nid, key + ":open", "%s on a sub-socket in state %s (must be initialised and not yet opened/cleaned)" % (name, cur))
                return [(self.setobj(user, key, OPEN), S.ZERO), (self.setobj(user, key, CLEAN), S.NEG)]
            if ev == "close":
                if cur in (INITED, OPEN, LIVE):
                    return self.setobj(user, key, CLEAN)
                if cur == DEAD:
                    return None          # the pointer was set to NULL with the destroy; close(NULL) is a no-op
                if cur in (CLEAN, UNINIT):
                    self.viol(fn, nid, key + ":double-close", "%s closes/cleans up %s, which is already in the cleaned-up state (%s): "
                              "per the xcm_tp.h contract a failed connect/server/accept has cleaned the socket up; a second deinit releases "
                              "descriptors and registrations that are not its own any more" % (self.root.name, key, cur))
                return None
            if ev == "destroy":
                if cur in (UNINIT, CLEAN):
                    return self.setobj(user, key, DEAD)
                if cur == DEAD or cur is None:
                    return None          # destroy(NULL) is a no-op; fields are set to NULL when destroyed
                if cur == MOVED:
                    return None
                self.viol(fn, nid, key + ":leak", "%s destroys %s while it is %s: it is never closed - its descriptors, epoll registrations, "
                          "TLS context reference and memory leak (a listening port stays bound)"
                          % (self.root.name, key, {"INITED": "initialised", "OPEN": "open", "LIVE": "possibly open"}.get(cur, cur)))
                return self.setobj(user, key, DEAD)
        if name in USES and n["args"]:
            key = self.key_of(fn, st, n["args"][0])
            if key and self.get(st, key) == DEAD and not key.startswith("other:"):
                # destroyed fields are NULL afterwards; NULL into a data op is a crash
                self.viol(fn, nid, key + ":use-after-destroy", "%s uses %s after it was destroyed" % (name, key))
        return None

    def _creator_result(self, fn, st, rhs):
        """state of the object a call expression returns, if it is a creator"""
        rn = fn.sn(rhs)
        if rn["k"] != "call":
            return None
        name = rn.get("callee") or ""
        if name == "xcm_tp_socket_create":
            return UNINIT
        if name in self.creators:
            nfail = name in self.never_fails or (self.creators[name] == INITED and self._init_never_fails(fn, rn["id"]))
            return self.creators[name] if nfail else "?" + self.creators[name]
        return None

    def on_store(self, fn, st, nid, lhs, rhs, op):
        if op != "=" or rhs is None:
            return None
        lk = self.key_of(fn, st, lhs) if is_sock_ptr(fn.sn(lhs).get("t")) or fn.sn(lhs)["k"] == "un" else None
        if lk is None:
            return None
        return self._assign(fn, st, nid, lk, rhs)

    def on_elem(self, fn, st, nid):
        n = fn.nodes[nid]
        if n["k"] == "decl":
            user = st.user
            ch = False
            for v in n["vars"]:
                if is_sock_ptr(v.get("t")) and v.get("init") is not None:
                    key = "local:%s#%s" % (v["name"], v["did"])
                    u2 = self._assign(fn, st.with_user(user), nid, key, v["init"])
                    if u2 is not None:
                        user = u2
                        ch = True
            return user if ch else None
        return None

    def _assign(self, fn, st, nid, lk, rhs):
        user = st.user
        cur = self.get(st, lk)
        c = C.const_of(fn, rhs)
        if c == 0:
            if cur in (INITED, OPEN, LIVE, UNINIT, CLEAN) and not lk.startswith("local:"):
                self.viol(fn, nid, lk + ":lost", "%s is overwritten with NULL while in state %s (never destroyed)" % (lk, cur))
            return self.setobj(user, lk, DEAD if not lk.startswith("local:") else None)
        res = self._creator_result(fn, st, rhs)
        if res is not None:
            return self.setobj(user, lk, res)
        rk = self.key_of(fn, st, rhs)
        if rk is not None and rk != lk:
            rs = self.get(st, rk)
            if lk.startswith("local:") and not rk.startswith("local:"):
                # a local alias of a field
                return self.setobj(user, "alias:" + lk, rk)
            u2 = self.setobj(user, lk, rs)
            if rk.startswith("local:"):
                u2 = self.setobj(u2, rk, MOVED)
            return u2
        return None

    def on_branch(self, fn, st, blk, cond, label):
        if label not in ("T", "F"):
            return None
        l, op, r = C.cond_atom(fn, cond, label == "T")
        cz = r[1] if isinstance(r, tuple) else C.const_of(fn, r)
        if cz != 0:
            return None
        ln = fn.sn(l)
        if ln["k"] == "ref" and ln["dk"] == "param" and self.bind_of(st, fn, ln["name"]) == "SELF" and op == "==":
            return C.DEAD           # ops are only invoked on an existing socket (xcm_tp_socket_* test for NULL first)
        key = self.key_of(fn, st, l)
        if key is None:
            return None
        cur = self.get(st, key)
        if cur and cur.startswith("?"):
            # result of a creator that may return NULL
            return self.setobj(st.user, key, None if op == "==" else cur[1:])
        if op == "==":          # pointer is NULL on this edge
            if cur in (UNINIT, INITED, OPEN, CLEAN):
                return C.DEAD       # known non-NULL
            if cur == LIVE:
                return self.setobj(st.user, key, DEAD)
            return None
        if op == "!=":
            if cur in (DEAD,) and not key.startswith("local:"):
                return C.DEAD
            return None
        return None

    def on_exit(self, fn, st, ret_nid, ret_cls, top):
        if not top:
            return
        self.exits += 1
        ok = ret_cls in (S.ZERO, S.NONNEG, S.POS) or (ret_cls is None and self.slot in ("close", "cleanup"))
        retkey = None
        if ret_nid is not None and fn.nodes[ret_nid].get("sub") is not None:
            retkey = self.key_of(fn, st, fn.nodes[ret_nid]["sub"])
            rc = C.const_of(fn, fn.nodes[ret_nid]["sub"])
            if is_sock_ptr(fn.ret):
                ok = rc != 0
        for key, val in st.user[0]:
            if key.startswith(("alias:", "other:")):
                continue
            if key == retkey:
                continue
            if val and val.startswith("?"):
                val = val[1:]
            if key.startswith("local:"):
                if val in (UNINIT, INITED, OPEN, CLEAN):
                    self.viol(fn, ret_nid, key + ":local-leak", "%s returns with the socket it created (%s) in state %s: neither handed over nor destroyed"
                              % (self.root.name, key.split(":")[1].split("#")[0], val))
                continue
            if self.slot == "init":
                if ok and val not in (INITED,):
                    self.viol(fn, ret_nid, key + ":init-exit", "init succeeds with %s in state %s" % (key, val))
                if not ok and val not in (DEAD, None, MOVED):
                    self.viol(fn, ret_nid, key + ":init-fail-exit", "init fails leaving %s in state %s (it is never released: the caller only destroys the socket)" % (key, val))
            elif self.slot in ("connect", "server", "accept"):
                if ok and val not in (OPEN, DEAD):
                    self.viol(fn, ret_nid, key + ":success-exit", "%s succeeds with %s in state %s (must be open or removed)" % (self.root.name, key, val))
                if not ok and val != DEAD:
                    self.viol(fn, ret_nid, key + ":failure-exit", "%s fails leaving %s in state %s: the contract says a failed %s leaves the socket cleaned up, "
                              "and the caller will not call close" % (self.root.name, key, val, self.slot))
            elif self.slot in ("close", "cleanup"):
                if val != DEAD:
                    self.viol(fn, ret_nid, key + ":close-exit", "%s returns with %s in state %s" % (self.root.name, key, val))


def proto_helpers(prog):
    """static helper -> protocol name, for helpers that look a transport up by a literal name"""
    out = {}
    for f in prog.functions:
        if not f.static or len(f.blocks) > 12:
            continue
        lits = [m["v"] for m in f.nodes.values() if m["k"] == "str"]
        calls = [f.nodes[c].get("callee") for c in f.calls()]
        if len(lits) == 1 and any(c in ("get_proto", "xcm_tp_proto_by_name") for c in calls) and "xcm_tp_proto" in (f.ret or ""):
            out[f.name] = lits[0]
    return out


def call_proto(fn, nid, helpers):
    """protocol of the socket an init/creator call works on: a proto helper in
    the call's arguments, else the only proto helper used in the function"""
    n = fn.nodes[nid]
    for a in n["args"]:
        for x in fn.walk(a):
            m = fn.nodes[x]
            if m["k"] == "call" and m.get("callee") in helpers:
                return helpers[m["callee"]]
    used = {helpers[fn.nodes[c]["callee"]] for c in fn.calls() if fn.nodes[c].get("callee") in helpers}
    return list(used)[0] if len(used) == 1 else None


def never_fails(prog, candidates, tables=(), creators=()):
    """greatest fixpoint: int functions that never return a negative value /
    pointer functions that never return NULL.  xcm_tp_socket_init and the
    creators dispatch on the protocol of the socket they are given, which is
    resolved from the literal name in the proto helper (ux_proto(), ...)."""
    helpers = proto_helpers(prog)
    init_of = {t.proto: t.slots.get("init") for t in tables if t.proto}
    nf = {f.name for f in candidates}
    changed = True
    rounds = 0
    while changed and rounds < 8:
        changed = False
        rounds += 1
        for f in candidates:
            if f.name not in nf:
                continue

            class R(S.SeqRule):
                def __init__(s2, prog):
                    super().__init__(prog)
                    s2.neg = False

                def inline(s2, fn, nid, callee):
                    return False

                def call_class(s2, fn, st, nid, callees, exts):
                    name = fn.nodes[nid].get("callee") or ""
                    t = fn.nodes[nid].get("t") or ""
                    if name == "xcm_tp_socket_init" or name in creators:
                        pr = call_proto(fn, nid, helpers)
                        tgt = init_of.get(pr)
                        if tgt is not None and tgt.name in nf and fn is not prog.fn_opt("xcm_tp_socket_init"):
                            return S.NONZERO if "*" in t else S.ZERO
                        if name == "xcm_tp_socket_init":
                            return None
                    if callees and all(d.name in nf for d in callees) and not exts:
                        return S.NONZERO if "*" in t else S.ZERO
                    return None

                def on_exit(s2, fn, st, ret_nid, ret_cls, top):
                    if not top:
                        return
                    if "*" in (fn.ret or ""):
                        if ret_cls not in (S.NONZERO, S.POS):
                            s2.neg = True       # may return NULL
                    elif ret_cls not in (S.ZERO, S.POS, S.NONNEG):
                        s2.neg = True
            r = R(prog)
            try:
                S.run(r, f)
            except RuntimeError:
                r.neg = True
            if r.neg:
                nf.discard(f.name)
                changed = True
    return nf, helpers, init_of
