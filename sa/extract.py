"""Compilation database from the real build + driver of the xcmfacts extractor.

Nothing here runs XCM.  `make -n` only prints the commands the build would
run; the prerequisites that would trigger a re-configure are declared
up-to-date with -o (a plain `make -n -B` re-runs configure and rewrites
tracked files).
"""
import hashlib
import json
import os
import re
import shlex
import shutil
import subprocess
import sys
import time
from concurrent.futures import ThreadPoolExecutor

REPO = os.environ.get("XCM_REPO", "/repo")
VERIF = os.path.dirname(os.path.dirname(os.path.abspath(__file__)))
BUILD = os.path.join(VERIF, "build")
XCMFACTS = os.path.join(BUILD, "xcmfacts")

MAKE_N = ["make", "-n", "-B",
          "-o", "Makefile", "-o", "config.status", "-o", "configure",
          "-o", "Makefile.in", "-o", "aclocal.m4", "-o", "common/config.h",
          "-o", "common/stamp-h1", "-o", "common/config.h.in",
          "-o", "include/xcm_version.h", "all"]


class AnalysisBroken(Exception):
    pass


def product_of(objname):
    b = os.path.basename(objname)
    if b.startswith("libxcmctl_la-"):
        return "libxcmctl"
    if b.startswith("libxcm_la-") or b.startswith("la-"):
        return "libxcm"
    m = re.match(r"(xcmtest|xcmrelay|xcmctl|xcmpong|xcm)-", b)
    if m:
        return m.group(1)
    return "other"


def compile_db():
    """-> list of {file, product, args} for every compile step of `make all`."""
    # `make -n` still remakes the included .deps/*.Po stubs (makefiles are remade even under -n), so two checks started
    # at the same moment on one tree race on them: one run per tree at a time, and one more attempt after a failure
    import fcntl
    os.makedirs(BUILD, exist_ok=True)
    # (scratch copies of the thorough tier are private to one run: no lock file for each of them)
    lockname = os.devnull if "/vfscratch-" in REPO else \
        os.path.join(BUILD, ".make-n-%s.lock" % hashlib.sha1(REPO.encode()).hexdigest()[:12])
    with open(lockname, "w") as lk:
        if lockname != os.devnull:
            fcntl.flock(lk, fcntl.LOCK_EX)
        p = subprocess.run(MAKE_N, cwd=REPO, capture_output=True, text=True)
        if p.returncode != 0:
            p = subprocess.run(MAKE_N, cwd=REPO, capture_output=True, text=True)
    if p.returncode != 0:
        raise AnalysisBroken("make -n failed: " + p.stderr[-400:])
    units = {}
    objmap = {}
    for prod, objs in makefile_sources().items():
        for o in objs:
            objmap[os.path.normpath(o)] = prod
    for line in p.stdout.splitlines():
        line = line.strip()
        if " -c " not in line:
            continue
        line = re.sub(r"`test -f '[^']*' \|\| echo '\./'`", "", line)
        try:
            toks = shlex.split(line)
        except ValueError:
            continue
        if "gcc" not in toks:
            continue
        toks = toks[toks.index("gcc") + 1:]
        args, obj, src = [], None, None
        i = 0
        while i < len(toks):
            t = toks[i]
            if t in ("-MT", "-MF"):
                i += 2
                continue
            if t in ("-MD", "-MP", "-c"):
                i += 1
                continue
            if t == "-o":
                obj = toks[i + 1]
                i += 2
                continue
            if t.endswith(".c") and not t.startswith("-"):
                src = t
                i += 1
                continue
            args.append(t)
            i += 1
        if not src or not obj:
            continue
        src = os.path.normpath(src)
        prod = objmap.get(os.path.normpath(obj)) or product_of(obj)
        key = (src, prod)
        if key in units:
            continue
        units[key] = {"file": src, "product": prod, "args": args, "obj": obj}
    if not units:
        raise AnalysisBroken("no compile steps found in make -n output")
    have = {os.path.normpath(u["obj"]) for u in units.values()}
    missing = [o for o in objmap if o not in have]
    if missing:
        raise AnalysisBroken("coverage guard: objects of the build without a compile step: %s" % missing[:5])
    return sorted(units.values(), key=lambda u: (u["product"], u["file"]))


def makefile_sources():
    """Source lists per product as the generated Makefile has them (coverage
    guard): am_<prod>_OBJECTS → .c names."""
    mk = open(os.path.join(REPO, "Makefile"), errors="replace").read()
    mk = mk.replace("\\\n", " ")
    vars_ = dict(re.findall(r"^([A-Za-z0-9_]+) *= *(.*)$", mk, re.M))

    def expand(v, depth=0):
        s = vars_.get(v, "")
        if depth > 8:
            return s
        return re.sub(r"\$\(([A-Za-z0-9_]+)\)", lambda m: expand(m.group(1), depth + 1), s)
    out = {}
    for prod, var in (("libxcm", "am_libxcm_la_OBJECTS"), ("libxcmctl", "am_libxcmctl_la_OBJECTS"),
                      ("xcmrelay", "am_xcmrelay_OBJECTS"), ("xcmctl", "am_xcmctl_OBJECTS"),
                      ("xcm", "am_xcm_OBJECTS")):
        objs = expand(var).split()
        out[prod] = sorted(objs)
    return out


def source_hash(units):
    h = hashlib.sha256()
    try:
        h.update(open(XCMFACTS, "rb").read())
    except OSError:
        raise AnalysisBroken("extractor not built: run MANIFEST.setup_cmd (make -C /verif)")
    for u in units:
        h.update(repr((u["file"], u["product"], u["args"])).encode())
    files = []
    for root, dirs, fs in os.walk(REPO):
        dirs[:] = [d for d in dirs if d not in (".git", ".libs", ".deps", "autom4te.cache", "test", "python", "doc", "example", "devtools", "m4")]
        for f in fs:
            if f.endswith((".c", ".h")):
                files.append(os.path.join(root, f))
    for f in sorted(files):
        h.update(f.encode())
        h.update(open(f, "rb").read())
    return h.hexdigest()[:20]


PRODUCTS = ("libxcm", "libxcmctl", "xcmrelay", "xcmctl", "xcm", "xcmpong")


def extract(verbose=False):
    """Extract facts for the current /repo tree.  Returns (dir, units, wall)."""
    t0 = time.time()
    units = [u for u in compile_db() if u["product"] in PRODUCTS]
    h = source_hash(units)
    cache_root = os.path.join(BUILD, "facts")
    out = os.path.join(cache_root, h)
    done = os.path.join(out, "DONE")
    if os.path.exists(done):
        try:
            os.utime(out, None)          # least-recently-used eviction below
        except OSError:
            pass
        return out, json.load(open(os.path.join(out, "units.json"))), time.time() - t0
    tmp = out + ".tmp%d" % os.getpid()
    shutil.rmtree(tmp, ignore_errors=True)
    os.makedirs(tmp)

    def run(iu):
        i, u = iu
        o = os.path.join(tmp, "u%03d.json" % i)
        cmd = [XCMFACTS, "-o", o, "--root", REPO, u["file"], "--", "clang"] + u["args"] + ["-UNDEBUG", "-Wno-everything", "-ferror-limit=0"]
        p = subprocess.run(cmd, cwd=REPO, capture_output=True, text=True)
        return i, u, o, p
    with ThreadPoolExecutor(max_workers=16) as ex:
        results = list(ex.map(run, enumerate(units)))
    for i, u, o, p in results:
        if p.returncode != 0 or not os.path.exists(o):
            shutil.rmtree(tmp, ignore_errors=True)
            raise AnalysisBroken("extractor failed on %s: %s" % (u["file"], (p.stderr or p.stdout)[-600:]))
        u["facts"] = os.path.basename(o)
    json.dump(units, open(os.path.join(tmp, "units.json"), "w"))
    open(os.path.join(tmp, "DONE"), "w").write("ok\n")
    try:
        os.rename(tmp, out)
    except OSError:
        shutil.rmtree(tmp, ignore_errors=True)
    # keep the cache bounded (about 20 MB per tree): beyond the 12 most recently used trees, one not used for an hour
    # goes; beyond 100 (scratch copies are keyed by their own path, so nothing is shared between runs and an entry is
    # needed only while its run lasts) one not used for ten minutes goes - never a tree a concurrent run may still be loading
    try:
        now = time.time()
        ds = sorted((d for d in os.listdir(cache_root) if ".tmp" not in d),
                    key=lambda d: os.path.getmtime(os.path.join(cache_root, d)))
        for d in ds[:-12]:
            age = now - os.path.getmtime(os.path.join(cache_root, d))
            if age > 3600 or (len(ds) > 100 and d in ds[:-100] and age > 600):
                shutil.rmtree(os.path.join(cache_root, d), ignore_errors=True)
        for d in os.listdir(cache_root):
            if ".tmp" in d and now - os.path.getmtime(os.path.join(cache_root, d)) > 3600:
                shutil.rmtree(os.path.join(cache_root, d), ignore_errors=True)
    except OSError:
        pass
    return out, units, time.time() - t0


if __name__ == "__main__":
    d, us, w = extract(verbose=True)
    print(d, len(us), "units", "%.1fs" % w)
