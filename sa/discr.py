"""Discriminant preconditions: accessor functions that abort unless their
argument's tag field has a given value (ut_assert(node->type == K)) may only
be called where the tag is known on every path (assertion = proof
obligation in scopes fed by outside data)."""
from . import cfg as C


class Discr:
    def __init__(self, prog, eng):
        self.P = prog
        self.eng = eng           # bounds.Engine (for _aborts)
        self._pred = {}
        self._getter = {}
        self._pre = {}

    # --- summaries ---------------------------------------------------------
    def _ret_expr(self, g):
        info = self.eng._simple.get(g)
        if info is None:
            info = self.eng._simple_info(g)
            self.eng._simple[g] = info
        return info[0] if info else None

    def _tag_atom(self, g, nid, taken=True):
        """(param index, field, K) if the condition `nid` (on its taken edge)
        says param->field == K"""
        l, op, r = C.cond_atom(g, nid, taken)
        if op != "==":
            # predicate call != 0
            ln = g.sn(l)
            if op == "!=" and isinstance(r, tuple) and r[1] == 0 and ln["k"] == "call" and ln.get("callee"):
                d = self.P.resolve_direct(g, ln["callee"])
                p = self.pred(d) if d else None
                if p and len(ln["args"]) > p[0]:
                    a = g.sn(ln["args"][p[0]])
                    if a["k"] == "ref" and a["dk"] == "param":
                        idx = [i for i, q in enumerate(g.params) if q["did"] == a["did"]]
                        if idx:
                            return (idx[0], p[1], p[2])
            return None
        if isinstance(r, tuple):
            return None
        ln, rn = g.sn(l), g.sn(r)
        if rn["k"] == "member":
            ln, rn = rn, ln
        k = rn.get("cv")
        if ln["k"] == "member" and ln["field"] and k is not None:
            b = g.sn(ln["base"])
            if b["k"] == "ref" and b["dk"] == "param":
                idx = [i for i, q in enumerate(g.params) if q["did"] == b["did"]]
                if idx:
                    return (idx[0], ln["field"], k)
        return None

    def pred(self, g):
        """g(p) returns p->field == K  ->  (param idx, field, K)"""
        if g in self._pred:
            return self._pred[g]
        self._pred[g] = None
        r = self._ret_expr(g)
        if r is not None:
            self._pred[g] = self._tag_atom(g, r, True)
        return self._pred[g]

    def getter(self, g):
        """g(p) returns p->field  ->  (param idx, field)"""
        if g in self._getter:
            return self._getter[g]
        self._getter[g] = None
        r = self._ret_expr(g)
        if r is not None:
            n = g.sn(r)
            if n["k"] == "member" and n["field"]:
                b = g.sn(n["base"])
                if b["k"] == "ref" and b["dk"] == "param":
                    idx = [i for i, q in enumerate(g.params) if q["did"] == b["did"]]
                    if idx:
                        self._getter[g] = (idx[0], n["field"])
        return self._getter[g]

    def pre(self, g):
        """tag preconditions asserted at g's entry: list of (param idx, field, K)"""
        if g in self._pre:
            return self._pre[g]
        out = []
        b = g.entry
        steps = 0
        while steps < 12:
            steps += 1
            blk = g.blocks[b]
            # stop at the first store or impure call
            stop = False
            for e in blk.elems:
                n = g.nodes[e]
                if n["k"] == "bin" and n["op"] == "=":
                    stop = True
            es = C.edges(g, blk)
            if len(es) == 2 and es[0][1] in ("T", "F"):
                ab = [self.eng._aborts(g, s) for s, _ in es]
                if ab[0] != ab[1]:
                    surv = es[1] if ab[0] else es[0]
                    a = self._tag_atom(g, blk.term["cond"], surv[1] == "T")
                    if a:
                        out.append(a)
                    b = surv[0]
                    continue
                break
            if len(es) != 1 or stop:
                break
            b = es[0][0]
        self._pre[g] = out
        return out

    # --- checking ----------------------------------------------------------
    def check(self, f, rule, entry_facts=frozenset()):
        """explore f; returns the set of unestablished preconditions that are
        about f's own (never assigned) parameters - to be checked at callers;
        other unestablished ones are reported as violations."""
        P = self.P
        me = self
        assigned = set()
        for b, i, e, lhs, rhs, op in f.stores():
            n = f.sn(lhs)
            if n["k"] == "ref":
                assigned.add(n["name"])
        needs = set()
        nchecked = [0]

        def term(nid):
            return f.show(f.strip(nid))

        class R(C.Rule):
            def initial(self, fn):
                return entry_facts

            def elem(self, fn, st, nid, blk, idx):
                n = fn.nodes[nid]
                if n["k"] == "bin" and n["op"] == "=" or n["k"] == "decl":
                    names = []
                    if n["k"] == "decl":
                        names = [v["name"] for v in n["vars"]]
                    else:
                        ln = fn.sn(n["l"])
                        if ln["k"] == "ref":
                            names = [ln["name"]]
                    if names:
                        st2 = frozenset(x for x in st if not any(x[0] == nm or x[0].startswith(nm + "->") for nm in names))
                        return st2
                    return None
                if n["k"] != "call" or not n.get("callee"):
                    return None
                d = P.resolve_direct(fn, n["callee"])
                if d is None:
                    return None
                pres = list(me.pre(d))
                if d.static and d.file == fn.file and d in me._static_needs:
                    pres += list(me._static_needs[d])
                for (pi, fld, k) in pres:
                    if pi >= len(n["args"]):
                        continue
                    t = term(n["args"][pi])
                    nchecked[0] += 1
                    if (t, fld, k) in st:
                        rule.ok("%s: %s(%s) has %s == %s established" % (fn.name, d.name, t, fld, k), "tag test dominates on this path")
                        continue
                    an = fn.sn(n["args"][pi])
                    if an["k"] == "ref" and an["dk"] == "param" and an["name"] not in assigned and fn.static:
                        idx = [i for i, q in enumerate(fn.params) if q["did"] == an["did"]][0]
                        needs.add((idx, fld, k))
                        continue
                    rule.violation("%s:%s(%s)" % (fn.name, d.name, t),
                                   "%s aborts unless %s->%s == %s, which is not established on a path to this call" % (d.name, t, fld, k),
                                   loc=fn.loc(nid))
                return None

            def branch(self, fn, st, blk, cond, label):
                if cond is None:
                    return None
                if label in ("T", "F"):
                    l, op, r = C.cond_atom(fn, cond, label == "T")
                    ln = fn.sn(l)
                    # predicate call true / false
                    if ln["k"] == "call" and ln.get("callee") and isinstance(r, tuple) and r[1] == 0:
                        d = P.resolve_direct(fn, ln["callee"])
                        p = me.pred(d) if d else None
                        if p and op == "!=" and p[0] < len(ln["args"]):
                            return st | {(term(ln["args"][p[0]]), p[1], p[2])}
                        return None
                    if op == "==" and not isinstance(r, tuple):
                        a, b = fn.sn(l), fn.sn(r)
                        if b["k"] == "member":
                            a, b = b, a
                        k = b.get("cv")
                        if a["k"] == "member" and a["field"] and k is not None:
                            return st | {(term(a["base"]), a["field"], k)}
                    return None
                if isinstance(label, tuple) and label[0] == "case":
                    cn = fn.sn(cond)
                    if cn["k"] == "call" and cn.get("callee"):
                        d = P.resolve_direct(fn, cn["callee"])
                        gt = me.getter(d) if d else None
                        if gt and gt[0] < len(cn["args"]):
                            return st | {(term(cn["args"][gt[0]]), gt[1], label[1])}
                    if cn["k"] == "member" and cn["field"]:
                        return st | {(term(cn["base"]), cn["field"], label[1])}
                return None
        C.explore(f, R())
        return needs, nchecked[0]

    _static_needs = {}

    def check_scope(self, fns, rule):
        """fns: functions fed by outside data.  Static helpers' unestablished
        parameter preconditions are pushed to their callers (fixpoint)."""
        self._static_needs = {}
        total = 0
        for _ in range(4):
            changed = False
            saved = (list(rule.viol), rule.obligations, rule.discharged, list(rule.samples))
            rule.viol, rule.obligations, rule.discharged, rule.samples = [], 0, 0, []
            total = 0
            for f in fns:
                needs, n = self.check(f, rule)
                total += n
                if needs and self._static_needs.get(f) != needs:
                    self._static_needs[f] = needs
                    changed = True
            if not changed:
                break
        # a static function in scope with needs but no caller in scope: report
        for f, needs in self._static_needs.items():
            callers = [c for c, _ in self.P.callers().get(f, []) if c in fns]
            if not callers:
                rule.violation("%s:precondition" % f.name, "tag precondition %s is not established by any caller in scope" % sorted(needs), loc=f.file)
        return total
