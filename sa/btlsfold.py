"""Exact folding of the btls connection update over its whole input domain.

In state `ready` the function's result depends on four small quantities only:
the condition awaited by the layer above (0..3), the direction of the last
OpenSSL I/O call that could not complete (ssl_condition: none, RECEIVABLE,
SENDABLE), what OpenSSL asked for (ssl_wants: RECEIVABLE or SENDABLE) and
whether SSL_has_pending() reports decrypted bytes.  The source function is
interpreted, statement by statement, for all 48 combinations; the outputs are
the value handed to xpoll_bell_reg_mod and the condition stored into the
sub-socket.  No test samples this table; the folding enumerates it.
"""
from . import interp as I
from . import cfg as C

RCV, SND = 1, 2


class FoldError(Exception):
    pass


def paths(cu):
    """access-path texts the function uses for its inputs and its output"""
    own, sub, st, sc, sw = set(), set(), set(), set(), set()
    for nid, n in cu.nodes.items():
        if n["k"] != "member":
            continue
        fld = n["field"]
        txt = cu.show(nid)
        if fld == "condition":
            b = cu.sn(n["base"])
            if b["k"] == "ref" and b.get("dk") == "param":
                own.add(txt)
            else:
                sub.add(txt)
        elif fld == "state":
            st.add(txt)
        elif fld == "ssl_condition":
            sc.add(txt)
        elif fld == "ssl_wants":
            sw.add(txt)
    for name, s_ in (("own condition", own), ("sub-socket condition", sub), ("state", st), ("ssl_condition", sc), ("ssl_wants", sw)):
        if len(s_) != 1:
            raise FoldError("%s: %d access paths for %s (%s)" % (cu.qname, len(s_), name, sorted(s_)))
    return own.pop(), sub.pop(), st.pop(), sc.pop(), sw.pop()


def table(P, cu, ready_value):
    own, sub, st, scp, swp = paths(cu)
    rows = []
    for cond in range(4):
        for sc in (0, RCV, SND):
            for w in (RCV, SND):
                for hp in (0, 1):
                    rec = {}
                    it = I.Interp(P, stubs={"SSL_has_pending": lambda a, hp=hp: hp,
                                            "xpoll_bell_reg_mod": lambda a, rec=rec: rec.__setitem__("bell", a[2]) or 0,
                                            "xcm_tp_socket_update": lambda a, rec=rec: rec.__setitem__("updated", True) or 0,
                                            "__log_event": lambda a: 0, "log_is_enabled": lambda a: 0})
                    it.record_calls = True
                    it.opaque_decls = True
                    it.mem = {own: cond, st: ready_value, scp: sc, swp: w}
                    try:
                        it.call(cu, [1])
                    except I.Unsupported as e:
                        raise FoldError("%s cannot be folded for condition=%d ssl_condition=%d ssl_wants=%d pending=%d: %s" % (cu.qname, cond, sc, w, hp, e))
                    if "bell" not in rec:
                        raise FoldError("%s: no bell decision for condition=%d ssl_condition=%d" % (cu.qname, cond, sc))
                    rows.append({"cond": cond, "ssl_condition": sc, "ssl_wants": w, "pending": hp, "bell": bool(rec["bell"]),
                                 "sub": it.mem.get(sub), "sub_stored": sub in it.mem, "updated": bool(rec.get("updated"))})
    return rows


def name(c):
    return {0: "nothing", 1: "RECEIVABLE", 2: "SENDABLE", 3: "SENDABLE|RECEIVABLE"}.get(c, str(c))


def describe(r):
    return "awaited=%s, last OpenSSL op=%s wanting %s, SSL_has_pending=%d -> bell=%s, sub-socket waits for %s" % (
        name(r["cond"]), {0: "none", 1: "read", 2: "write"}[r["ssl_condition"]], name(r["ssl_wants"]), r["pending"], r["bell"],
        name(r["sub"]) if r["sub_stored"] else "(not stored)")
