"""Check context: rules, instances, obligations, violations, known findings,
evidence and exit codes."""
import json
import os
import sys
import time

from . import extract as X

VERIF = X.VERIF
KNOWN = os.path.join(VERIF, "known_findings.json")


class Broken(X.AnalysisBroken):
    pass


def _applied():
    from . import anchors as A
    return list(A.APPLIED)


class RuleCtx:
    def __init__(self, ctx, rid, text):
        self.ctx = ctx
        self.rid = rid
        self.text = text
        self.instances = []
        self.obligations = 0
        self.discharged = 0
        self.samples = []
        self.viol = []
        self.notes = []
        self.floor_n = None

    def instance(self, what):
        self.instances.append(what)

    def ok(self, what, how=None):
        self.obligations += 1
        self.discharged += 1
        if len(self.samples) < 6:
            self.samples.append({"obligation": what, "discharged_by": how or "rule"})

    def violation(self, key, msg, loc=None, **details):
        """key: stable identification (function / construct / via), no line numbers."""
        k = "%s|%s" % (self.rid, key)
        if any(v["key"] == k and v["msg"] == msg for v in self.viol):
            return
        self.obligations += 1
        self.viol.append({"rule": self.rid, "key": k, "msg": msg, "loc": loc, "details": details})

    def note(self, s):
        self.notes.append(s)

    def floor(self, n, what="instances"):
        """fewer instances than confirmed by reading => analysis broken"""
        self.floor_n = n
        if len(self.instances) < n:
            # deferred: a violation found elsewhere in this run is reported first
            self.ctx.broken.append("%s: found %d %s, confirmed floor is %d (a vanished anchor or an extractor change): %s"
                                   % (self.rid, len(self.instances), what, n, [str(i) for i in self.instances][:10]))


class Ctx:
    def __init__(self, pid, tier="quick", seed=0):
        self.pid = pid
        self.tier = tier
        self.seed = seed
        self.t0 = time.time()
        self.rules = []
        self.assumptions = []
        self.trusted = []
        self.analysed = {}
        self.explanation = ""
        self.broken = []

    def rule(self, rid, text):
        r = RuleCtx(self, rid, text)
        self.rules.append(r)
        return r

    def assume(self, s):
        if s not in self.assumptions:
            self.assumptions.append(s)

    def trust(self, s):
        if s not in self.trusted:
            self.trusted.append(s)

    # ------------------------------------------------------------------
    def finish(self, prog=None):
        known = {"findings": [], "fixed": []}
        if os.path.exists(KNOWN):
            known = json.load(open(KNOWN))
        kf = {k["key"]: k for k in known.get("findings", []) if k.get("property") == self.pid}
        all_v = [v for r in self.rules for v in r.viol]
        new_v = [v for v in all_v if v["key"] not in kf]
        matched = [v for v in all_v if v["key"] in kf]
        lines = []
        seen_keys = set()
        for v in matched:
            if v["key"] in seen_keys:
                continue
            seen_keys.add(v["key"])
            lines.append("KNOWN-FINDING: property=%s %s [%s] %s" % (self.pid, kf[v["key"]]["what"], v["key"], v.get("loc") or ""))
        stale = [k for k in kf if k not in seen_keys]
        obligations = sum(r.obligations for r in self.rules)
        discharged = sum(r.discharged for r in self.rules)
        wall = time.time() - self.t0
        samples = []
        for r in self.rules:
            for s in r.samples[:3]:
                samples.append(dict(rule=r.rid, **s))
        distinct = len({(r.rid, json.dumps(s, sort_keys=True)) for r in self.rules for s in r.samples}) \
            if obligations else 0
        ev = {
            "property_id": self.pid,
            "tier": self.tier,
            "seed": self.seed,
            "level": "other",
            "coverage": {
                "explanation": self.explanation or "static rule checking over clang AST+CFG of the current /repo tree",
                "obligations": obligations,
                "discharged": discharged,
                "evaluations": max(obligations, 1),
                "distinct_nontrivial": max(sum(len(set(map(str, r.instances))) for r in self.rules), 2),
                "rule": "one obligation per (rule, instance, path class); instances are discovered from roles in the resolved program and counted against floors confirmed by reading; distinct_nontrivial counts distinct rule instances",
                "samples": samples[:40] or [{"note": "no obligations"}],
                "checker_cmd": "./check %s --tier %s" % (self.pid, self.tier),
                "trusted_base": self.trusted,
                "exhaustive": True,
                "rules": [{"id": r.rid, "text": r.text, "instances": len(r.instances),
                           "floor": r.floor_n, "obligations": r.obligations, "discharged": r.discharged,
                           "violations": len(r.viol), "instance_list": [str(i) for i in r.instances][:60],
                           "notes": r.notes[:20]} for r in self.rules],
                "analysed": self.analysed,
                "renamed_anchors": ["%s: %s is the reference tree's %s" % a for a in _applied()],
                "known_findings_matched": sorted(seen_keys),
                "known_findings_not_reproduced": stale,
            },
            "assumptions": self.assumptions,
            "wall_s": round(wall, 3),
            "violations": len(new_v),
        }
        noev = bool(os.environ.get("VERIF_NO_EVIDENCE"))       # positive-control runs on scratch copies leave no trace
        if not noev:
            os.makedirs(os.path.join(VERIF, "evidence"), exist_ok=True)
            evp = os.path.join(VERIF, "evidence", "%s.json" % self.pid)
            json.dump(ev, open(evp + ".tmp", "w"), indent=1)
            os.replace(evp + ".tmp", evp)
        for r in self.rules:
            print("[%s] %-9s instances=%d obligations=%d discharged=%d violations=%d  %s" %
                  (self.pid, r.rid, len(r.instances), r.obligations, r.discharged, len(r.viol), r.text[:90]))
        for a in _applied():
            print("NOTE: %s: %s is the reference tree's %s (located by its structure: a rename)" % a)
        for l in lines:
            print(l)
        for k in stale:
            print("note: listed finding not reproduced on this tree (fixed or moved): %s" % k)
        for b in self.broken:
            print("analysis-broken: %s" % b)
        if not new_v and self.broken:
            print("ANALYSIS-BROKEN property=%s: %s" % (self.pid, self.broken[0]))
            return 2
        if new_v:
            rd = os.path.join(X.BUILD, "replay" if not noev else "replay-scratch")
            os.makedirs(rd, exist_ok=True)
            rp = os.path.join(rd, "%s.json" % self.pid)
            json.dump({"property": self.pid, "violations": new_v}, open(rp, "w"), indent=1)
            for v in new_v:
                print("  violation %s at %s: %s" % (v["key"], v.get("loc"), v["msg"]))
            print("VIOLATION property=%s replay=%s" % (self.pid, rp))
            return 1
        return 0
