"""Exact evaluation of side-effect-free integer functions from their AST/CFG
with C's fixed-width arithmetic (wrap-around, conversions).  Used to decide
comparison-only predicates (accepted-length sets) by exhaustive case analysis
over their critical points - no code of the repository is executed; the
analysis folds the function's expressions over chosen integer values."""
from . import cfg as C


class Unsupported(Exception):
    pass


def wrap(v, sz, uns):
    if sz is None:
        return v
    bits = 8 * sz
    v &= (1 << bits) - 1
    if not uns and v >= (1 << (bits - 1)):
        v -= 1 << bits
    return v


class Interp:
    def __init__(self, prog, stubs=None, fields=None, max_steps=20000):
        self.P = prog
        self.stubs = stubs or {}        # callee name -> fn(list of int args) -> int
        self.fields = fields or {}      # field name -> int (value of any X->field / X.field)
        self.max_steps = max_steps
        self.record_calls = False       # evaluate stubbed calls that appear as statements too
        self.mem = None                 # dict: access-path text -> int; when set, stores to memory are recorded and reads look here first
        self.opaque_decls = False       # a local whose initialiser cannot be folded (a pointer) becomes an opaque token

    def call(self, f, args, depth=0):
        if depth > 12:
            raise Unsupported("recursion")
        env = {}
        for p, a in zip(f.params, args):
            env[p["name"]] = a
        b = f.entry
        steps = 0
        while True:
            steps += 1
            if steps > self.max_steps:
                raise Unsupported("loop")
            blk = f.blocks[b]
            for e in blk.elems:
                n = f.nodes[e]
                if n["k"] == "return":
                    return self.ev(f, n["sub"], env, depth) if n.get("sub") is not None else 0
                if n["k"] == "decl":
                    for v in n["vars"]:
                        if v.get("init") is not None:
                            try:
                                env[v["name"]] = self.ev(f, v["init"], env, depth)
                            except Unsupported:
                                if not self.opaque_decls:
                                    raise
                                env[v["name"]] = 1
                elif n["k"] == "bin" and n["op"] == "=":
                    ln = f.sn(n["l"])
                    if ln["k"] != "ref":
                        if self.mem is None:
                            raise Unsupported("store to memory in %s" % f.name)
                        self.mem[f.show(n["l"])] = self.ev(f, n["r"], env, depth)
                    else:
                        env[ln["name"]] = self.ev(f, n["r"], env, depth)
                elif n["k"] == "bin" and n["op"] in ("|=", "&=", "+=", "-=", "^="):
                    ln = f.sn(n["l"])
                    if ln["k"] != "ref" or ln["name"] not in env:
                        raise Unsupported("compound store to memory in %s" % f.name)
                    a, b2 = env[ln["name"]], self.ev(f, n["r"], env, depth)
                    env[ln["name"]] = wrap({"|=": a | b2, "&=": a & b2, "+=": a + b2, "-=": a - b2, "^=": a ^ b2}[n["op"]], n.get("sz"), n.get("uns"))
                elif n["k"] == "call" and self.record_calls and (n.get("callee") in self.stubs):
                    # a call evaluated for its effect (stubs may record their arguments)
                    self.stubs[n["callee"]]([self._arg(f, a, env, depth) for a in n["args"]])
            if blk.noreturn:
                raise Unsupported("abort reached in %s" % f.name)
            if b == f.exit:
                return 0
            es = C.edges(f, blk)
            if not es:
                # constant-false edges pruned: take the remaining raw successor
                raise Unsupported("dead end")
            if len(es) == 1 and es[0][1] is None:
                b = es[0][0]
                continue
            if es[0][1] in ("T", "F"):
                cond = blk.term.get("cond")
                v = self.ev(f, cond, env, depth)
                want = "T" if v != 0 else "F"
                nxt = [s for s, lab in es if lab == want]
                if not nxt:
                    raise Unsupported("pruned edge taken")
                b = nxt[0]
                continue
            if blk.term and blk.term["k"] == "SwitchStmt" and blk.term.get("cond") is not None:
                v = self.ev(f, blk.term["cond"], env, depth)
                nxt = [s_ for s_, lab in es if lab[0] == "case" and lab[1] == v] or [s_ for s_, lab in es if lab[0] == "default"]
                if not nxt:
                    raise Unsupported("switch without matching case")
                b = nxt[0]
                continue
            raise Unsupported("switch")

    def ev(self, f, nid, env, depth):
        n = f.nodes[nid]
        k = n["k"]
        if "cv" in n and k not in ("ref",):
            return n["cv"]
        if k in ("paren", "opaque"):
            return self.ev(f, n["sub"], env, depth)
        if k == "cast":
            v = self.ev(f, n["sub"], env, depth)
            if n.get("ck") in ("IntegralCast",):
                return wrap(v, n.get("sz"), n.get("uns"))
            if n.get("ck") in ("IntegralToBoolean", "PointerToBoolean"):
                return 1 if v != 0 else 0
            return v
        if k == "int" or k == "char":
            return n["v"]
        if k == "ref":
            if n["dk"] == "enumconst":
                return n["cv"]
            if n["name"] in env:
                return env[n["name"]]
            raise Unsupported("free variable %s" % n["name"])
        if k == "member":
            if self.mem is not None and f.show(nid) in self.mem:
                return self.mem[f.show(nid)]
            if n["field"] in self.fields:
                return self.fields[n["field"]]
            raise Unsupported("memory read %s" % f.show(nid))
        if k == "un":
            if n["op"] == "&":
                return 1          # address of something: non-null token
            v = self.ev(f, n["sub"], env, depth)
            if n["op"] == "!":
                return 0 if v != 0 else 1
            if n["op"] == "-":
                return wrap(-v, n.get("sz"), n.get("uns"))
            if n["op"] == "~":
                return wrap(~v, n.get("sz"), n.get("uns"))
            if n["op"] == "+":
                return v
            raise Unsupported("unary %s" % n["op"])
        if k == "bin":
            op = n["op"]
            if op == "&&":
                return 1 if (self.ev(f, n["l"], env, depth) != 0 and self.ev(f, n["r"], env, depth) != 0) else 0
            if op == "||":
                return 1 if (self.ev(f, n["l"], env, depth) != 0 or self.ev(f, n["r"], env, depth) != 0) else 0
            a, b = self.ev(f, n["l"], env, depth), self.ev(f, n["r"], env, depth)
            if op in ("<", "<=", ">", ">=", "==", "!="):
                return 1 if {"<": a < b, "<=": a <= b, ">": a > b, ">=": a >= b, "==": a == b, "!=": a != b}[op] else 0
            if op == "+":
                r = a + b
            elif op == "-":
                r = a - b
            elif op == "*":
                r = a * b
            elif op == "/":
                if b == 0:
                    raise Unsupported("div0")
                r = int(a / b)
            elif op == "%":
                if b == 0:
                    raise Unsupported("div0")
                r = a - int(a / b) * b
            elif op == "&":
                r = a & b
            elif op == "|":
                r = a | b
            elif op == "^":
                r = a ^ b
            elif op == "<<":
                r = a << (b & 63)
            elif op == ">>":
                r = a >> (b & 63)
            else:
                raise Unsupported("binary %s" % op)
            return wrap(r, n.get("sz"), n.get("uns"))
        if k == "cond":
            c = self.ev(f, n["c"], env, depth)
            return self.ev(f, n["tv"] if c != 0 else n["fv"], env, depth)
        if k == "stmtexpr" and n.get("sub") is not None:
            return self.ev(f, n["sub"], env, depth)
        if k == "call":
            name = n.get("callee")
            if name in self.stubs:
                return self.stubs[name]([self._arg(f, a, env, depth) for a in n["args"]])
            if name == "__builtin_expect":
                return self.ev(f, n["args"][0], env, depth)
            d = self.P.resolve_direct(f, name) if name else None
            if d is None:
                raise Unsupported("external call %s" % name)
            v = self.call(d, [self._arg(f, a, env, depth) for a in n["args"]], depth + 1)
            return v
        if k == "sizeof":
            return n["cv"]
        raise Unsupported("node %s" % k)

    def _arg(self, f, a, env, depth):
        try:
            return self.ev(f, a, env, depth)
        except Unsupported:
            return 1        # opaque (pointer) argument


def critical_points(consts, width=32):
    """values at which a predicate built from comparisons of c +/- k against
    constants can change: every pairwise sum/difference of the constants and
    the type boundaries, with a +/-2 halo"""
    top = 1 << width
    base = {0, top - 1, (top >> 1) - 1, top >> 1, 1 << 16, (1 << 16) - 1} | set(consts)
    pts = set()
    cs = sorted(base)
    for a in cs:
        for b in cs:
            for v in (a + b, a - b, b - a, top - a, top - a - b, top - a + b):
                for d in range(-2, 3):
                    x = v + d
                    if 0 <= x < top:
                        pts.add(x)
    return sorted(pts)


def accepted_intervals(pred, pts):
    """pred: int -> bool evaluated at the sorted points; returns maximal runs
    [(lo, hi)] of consecutive *points* where pred holds, merging runs whose
    points are adjacent integers or whose intermediate points all accept"""
    out = []
    cur = None
    for p in pts:
        if pred(p):
            if cur is None:
                cur = [p, p]
            else:
                cur[1] = p
        else:
            if cur is not None:
                out.append(tuple(cur))
                cur = None
    if cur is not None:
        out.append(tuple(cur))
    return out
