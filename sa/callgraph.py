"""E6: call-graph reachability over resolved edges with guard pruning.

A *guard* is a predicate on a branch condition that fixes the branch under an
assumption carried from the root (e.g. "the socket is non-blocking": every
test of xcm_socket.is_blocking is false).  Only calls in blocks that stay
reachable under the assumption produce edges.
"""
from collections import deque

from . import cfg as C

# library callback model (trusted): functions of a family may invoke the
# callbacks registered with that family.
FAMILIES = {
    "openssl": ("SSL_", "BIO_", "X509_", "PEM_", "EVP_", "ERR_", "OPENSSL_", "CRYPTO_", "ASN1_", "TLS_"),
    "ares": ("ares_",),
    "libevent": ("event_", "evsignal_", "evtimer_", "event_base_"),
    "qsort": ("qsort", "bsearch"),
}
# callbacks that only run under specific entry points of a family
CALLBACK_ENTRY = {
    # OpenSSL invokes BIO and verify callbacks only from these
    "openssl": {"SSL_connect", "SSL_accept", "SSL_read", "SSL_write", "SSL_shutdown", "SSL_do_handshake",
                "SSL_free", "BIO_free", "BIO_new", "SSL_set_bio", "SSL_has_pending", "SSL_peek", "BIO_free_all"},
    "ares": {"ares_process", "ares_process_fd", "ares_getaddrinfo", "ares_destroy", "ares_cancel"},
}


def family_of(name):
    for fam, pre in FAMILIES.items():
        if name.startswith(pre):
            return fam
    return None


# OpenSSL BIO method callbacks by role: the life-cycle callbacks run under BIO_new/BIO_free/SSL_free,
# the I/O callbacks under the handshake and data calls (BIO_meth_new(3), SSL_free(3))
BIO_LIFE_REG = {"BIO_meth_set_create", "BIO_meth_set_destroy"}
OPENSSL_LIFE_ENTRY = {"SSL_free", "BIO_free", "BIO_free_all", "BIO_new", "SSL_set_bio", "SSL_has_pending"}


class CallbackSet(set):
    """set of callbacks of a family with the subset that only runs on object creation/destruction"""
    life = frozenset()
    io = frozenset()


def library_callbacks(prog):
    """family -> set of Function registered as callbacks with that family"""
    fp = prog.fp()
    out = {}
    life, io = set(), set()
    for f in prog.functions:
        for c in f.calls():
            n = f.nodes[c]
            defs, exts = prog.callees(f, c)
            for e in exts:
                fam = family_of(e)
                if not fam:
                    continue
                for a in n["args"]:
                    for l in fp._locs(f, a):
                        if l[0] == "F":
                            out.setdefault(fam, CallbackSet()).add(l[1])
                            if fam == "openssl":
                                (life if e in BIO_LIFE_REG else io).add(l[1])
    # stores into fields of records of a library (e.g. ares_options.sock_state_cb)
    for k, v in fp.consts.items():
        if k[0] == "f" and k[1] not in prog.records:
            fam = "ares" if k[1].startswith("ares") else ("openssl" if k[1].lower().startswith(("ssl", "bio", "x509")) else None)
            if fam:
                for d in v:
                    if not isinstance(d, tuple):
                        out.setdefault(fam, CallbackSet()).add(d)
    if "openssl" in out:
        out["openssl"].life = frozenset(life)
        out["openssl"].io = frozenset(io - life)
    return out


class Guard:
    """decides branch edges under an assumption.  Subclass and implement
    decide(fn, cond_nid) -> True / False / None (unknown)."""

    def decide(self, fn, cond):
        return None

    def live_blocks(self, fn):
        seen = set()
        st = [fn.entry]
        while st:
            b = st.pop()
            if b in seen:
                continue
            seen.add(b)
            blk = fn.blocks[b]
            es = C.edges(fn, blk)
            d = None
            if blk.term and blk.term.get("cond") is not None and len(es) and es[0][1] in ("T", "F"):
                d = self.decide(fn, blk.term["cond"])
            for s, lab in es:
                if d is True and lab == "F":
                    continue
                if d is False and lab == "T":
                    continue
                st.append(s)
        return seen


class FieldFalse(Guard):
    """assume every read of record.field (and of locals initialised from it
    and never reassigned) yields `value`."""

    def __init__(self, record, field, value=False):
        self.record, self.field, self.value = record, field, value
        self._alias = {}

    def aliases(self, fn):
        a = self._alias.get(fn)
        if a is None:
            a = set()
            cand = {}
            for nid, n in fn.nodes.items():
                if n["k"] == "decl":
                    for v in n["vars"]:
                        if v.get("init") is not None and self._is_field(fn, v["init"]):
                            cand[v["did"]] = True
            for b, i, e, lhs, rhs, op in fn.stores():
                ln = fn.sn(lhs)
                if ln["k"] == "ref" and ln["did"] in cand:
                    if not (op == "=" and rhs is not None and self._is_field(fn, rhs)):
                        cand[ln["did"]] = False
            a = {d for d, ok in cand.items() if ok}
            self._alias[fn] = a
        return a

    def _is_field(self, fn, nid):
        n = fn.sn(nid)
        return n["k"] == "member" and n["field"] == self.field and n.get("record") == self.record

    def _is_guard_value(self, fn, nid):
        n = fn.sn(nid)
        if self._is_field(fn, nid):
            return True
        return n["k"] == "ref" and n["did"] in self.aliases(fn)

    def decide(self, fn, cond):
        l, op, r = C.cond_atom(fn, cond, True)
        c = C.const_of(fn, r)
        if self._is_guard_value(fn, l) and c is not None and op in ("==", "!="):
            v = 1 if self.value else 0
            holds = (v == c) if op == "==" else (v != c)
            return holds
        return None


def call_edges(prog, fn, live=None, callbacks=None):
    """(call node id, [Function targets], [external names]) for calls in live blocks"""
    out = []
    for b in fn.blocks.values():
        if live is not None and b.id not in live:
            continue
        for e in b.elems:
            n = fn.nodes[e]
            if n["k"] != "call":
                continue
            defs, exts = prog.callees(fn, e)
            defs = list(defs)
            if callbacks:
                for x in exts:
                    fam = family_of(x)
                    if fam and fam in callbacks:
                        ent = CALLBACK_ENTRY.get(fam)
                        if ent is None or x in ent:
                            cbs = callbacks[fam]
                            if fam == "openssl" and x in OPENSSL_LIFE_ENTRY and getattr(cbs, "io", None):
                                defs.extend(d for d in cbs if d not in cbs.io)
                            else:
                                defs.extend(cbs)
            out.append((e, defs, exts))
    return out


def reach(prog, roots, guard=None, skip_edge=None, callbacks=None):
    """BFS over the call graph.  Returns dict Function -> (parent Function,
    call nid) for every reachable function (roots map to None)."""
    parent = {}
    q = deque()
    for r in roots:
        if r not in parent:
            parent[r] = None
            q.append(r)
    edges_of = {}
    while q:
        f = q.popleft()
        live = guard.live_blocks(f) if guard else None
        es = call_edges(prog, f, live, callbacks)
        edges_of[f] = es
        for e, defs, exts in es:
            for d in defs:
                if skip_edge and skip_edge(f, e, d):
                    continue
                if d not in parent:
                    parent[d] = (f, e)
                    q.append(d)
    return parent, edges_of


def path_to(parent, f):
    p = []
    while f is not None:
        p.append(f)
        x = parent.get(f)
        f = x[0] if x else None
    return list(reversed(p))
