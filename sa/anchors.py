"""Rename-tolerant anchors.

The rules name the repository's functions (the code itself says which function
is the update helper, which one loads the credentials ...).  A rename is not a
change of behaviour, so it must neither raise an alarm nor leave a property
undecided.  /verif/anchors.json holds, for every function of the reference
tree, a structural fingerprint (linkage, signature, callee names, field names
touched).  When a reference name is missing from a file and the file holds a
function that did not exist on the reference tree, has the same signature and
a near-identical fingerprint - and no other candidate comes close - the loaded
model is canonicalised: the function, the direct calls to it and the
references to it get the reference name back, and the report says so.  The
fingerprint only *locates* the function; every rule is then applied to the
function's current body.
"""
import json
import os

PATH = os.path.join(os.path.dirname(os.path.dirname(os.path.abspath(__file__))), "anchors.json")
APPLIED = []      # aliases applied in this process (for the report)
THRESHOLD = 0.7
MARGIN = 0.15


def fingerprint(f):
    callees, fields = set(), set()
    for n in f.nodes.values():
        if n["k"] == "call" and n.get("callee"):
            callees.add(n["callee"])
        elif n["k"] == "member" and n.get("field"):
            fields.add(n["field"])
    shape = {}
    for n in f.nodes.values():
        k = n["k"] + (":" + n["op"] if n.get("op") else "")
        shape[k] = shape.get(k, 0) + 1
    return {"static": bool(f.static), "ret": f.ret, "params": [p.get("t") for p in f.params], "callees": sorted(callees), "fields": sorted(fields),
            "nblocks": len(f.blocks), "shape": shape}


def similarity(a, b, ignore):
    sa = {c for c in a["callees"] if c not in ignore} | {"." + x for x in a["fields"]}
    sb = {c for c in b["callees"] if c not in ignore} | {"." + x for x in b["fields"]}
    ha, hb = dict(a.get("shape") or {}), dict(b.get("shape") or {})
    ha["#blocks"], hb["#blocks"] = a["nblocks"], b["nblocks"]
    tot = sum(ha.values()) + sum(hb.values())
    dist = sum(abs(ha.get(k, 0) - hb.get(k, 0)) for k in set(ha) | set(hb))
    shape = 1.0 - dist / float(tot) if tot else 1.0
    if not sa and not sb:
        return shape
    return 0.6 * len(sa & sb) / float(len(sa | sb)) + 0.4 * shape


def load():
    try:
        return json.load(open(PATH))
    except Exception:
        return {}


def canonicalise_fields(units, ref):
    """renamed fields of named records get their reference names back: a field that is new to a record, has the type of
    a field that is missing from it and sits at the same position (or is the only candidate of that type)"""
    rrecs = ref.get("//records") or {}
    out = []
    for u in units:
        ren = {}
        for r in u.records:
            rf = rrecs.get(r.get("name") or "")
            if not rf:
                continue
            cur = [(f["name"], f.get("t")) for f in r["fields"]]
            curnames = {n for n, t in cur}
            refnames = {n for n, t in rf}
            missing = [(i, n, t) for i, (n, t) in enumerate(rf) if n and n not in curnames]
            new = [(i, n, t) for i, (n, t) in enumerate(cur) if n and n not in refnames]
            for mi, mn, mt in missing:
                cands = [(i, n) for i, n, t in new if t == mt]
                pick = [n for i, n in cands if i == mi] or ([cands[0][1]] if len(cands) == 1 else [])
                if len(pick) == 1:
                    ren[(r["name"], pick[0])] = mn
                    new = [x for x in new if x[1] != pick[0]]
            for f in r["fields"]:
                if (r["name"], f["name"]) in ren:
                    f["name"] = ren[(r["name"], f["name"])]
        if not ren:
            continue
        for f in u.functions:
            for n in f.nodes.values():
                if n["k"] == "member" and (n.get("record"), n.get("field")) in ren:
                    n["field"] = ren[(n["record"], n["field"])]
        for g in u.globals:
            for n in (g.get("nodes") or {}).values():
                if n.get("k") == "member" and (n.get("record"), n.get("field")) in ren:
                    n["field"] = ren[(n["record"], n["field"])]
        for (rec, now), was in ren.items():
            out.append(("struct " + rec, now, was))
    return sorted(set(out))


def canonicalise(units):
    """returns the list of (file, current name, reference name) aliases applied"""
    ref = load()
    applied = []
    fields_applied = canonicalise_fields(units, ref)
    byfile = {}
    for u in units:
        for f in u.functions:
            byfile.setdefault(f.file, []).append(f)
    for file, fns in byfile.items():
        r = ref.get(file)
        if not r or file.startswith("//"):
            continue
        cur = {f.name for f in fns}
        missing = [n for n in r if n not in cur]
        if not missing:
            continue
        new = {}
        for f in fns:
            if f.name not in r:
                new.setdefault(f.name, f)
        if not new:
            continue
        ignore = set(missing) | set(new)
        fps = {name: fingerprint(f) for name, f in new.items()}
        score = {}
        for m in missing:
            rf = r[m]
            for name, fp in fps.items():
                if fp["static"] == rf["static"] and fp["ret"] == rf["ret"] and fp["params"] == rf["params"]:
                    score[(m, name)] = similarity(rf, fp, ignore)
        for (m, name), sc in sorted(score.items(), key=lambda kv: -kv[1]):
            if sc < THRESHOLD:
                continue
            rivals = [v for (m2, n2), v in score.items() if (m2 == m) != (n2 == name)]
            best_rival = max(rivals) if rivals else 0.0
            # the pairing must be the best for both sides: by a margin, or as the only exact structural match
            if sc - best_rival >= MARGIN or (sc >= 0.999 and best_rival < 0.999):
                applied.append((file, name, m, r[m]["static"]))
    if not applied:
        return fields_applied
    for file, now, was, static in applied:
        for u in units:
            touches = (not static) or any(f.file == file for f in u.functions)
            if not touches:
                continue
            for f in u.functions:
                if f.file == file and f.name == now:
                    f.alias_of = now
                    f.name = was
                    f.d["name"] = was
                for n in f.nodes.values():
                    if n["k"] == "call" and n.get("callee") == now:
                        n["callee"] = was
                    elif n["k"] == "ref" and n.get("dk") == "function" and n.get("name") == now:
                        n["name"] = was
            for g in u.globals:
                for n in (g.get("nodes") or {}).values():
                    if n.get("k") == "ref" and n.get("dk") == "function" and n.get("name") == now:
                        n["name"] = was
    return [(file, now, was) for file, now, was, static in applied] + fields_applied
