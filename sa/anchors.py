"""Rename-tolerant anchors.

The rules name the repository's functions (the code itself says which function
is the update helper, which one loads the credentials ...).  A rename is not a
change of behaviour, so it must neither raise an alarm nor leave a property
undecided.  /verif/anchors.json holds, for every function of the reference
tree, a structural fingerprint (linkage, signature, callee names, field names
touched).  When a reference name is missing from a file and the file holds a
function that did not exist on the reference tree, has the same signature and
a near-identical fingerprint - and no other candidate comes close - the loaded
model is canonicalised: the function, the direct calls to it and the
references to it get the reference name back, and the report says so.  The
fingerprint only *locates* the function; every rule is then applied to the
function's current body.
"""
import json
import os

PATH = os.path.join(os.path.dirname(os.path.dirname(os.path.abspath(__file__))), "anchors.json")
APPLIED = []      # aliases applied in this process (for the report)
THRESHOLD = 0.7
MARGIN = 0.15


def fingerprint(f):
    callees, fields = set(), set()
    for n in f.nodes.values():
        if n["k"] == "call" and n.get("callee"):
            callees.add(n["callee"])
        elif n["k"] == "member" and n.get("field"):
            fields.add(n["field"])
    shape = {}
    for n in f.nodes.values():
        k = n["k"] + (":" + n["op"] if n.get("op") else "")
        shape[k] = shape.get(k, 0) + 1
    return {"static": bool(f.static), "ret": f.ret, "params": [p.get("t") for p in f.params], "callees": sorted(callees), "fields": sorted(fields),
            "nblocks": len(f.blocks), "shape": shape}


def similarity(a, b, ignore):
    sa = {c for c in a["callees"] if c not in ignore} | {"." + x for x in a["fields"]}
    sb = {c for c in b["callees"] if c not in ignore} | {"." + x for x in b["fields"]}
    ha, hb = dict(a.get("shape") or {}), dict(b.get("shape") or {})
    ha["#blocks"], hb["#blocks"] = a["nblocks"], b["nblocks"]
    tot = sum(ha.values()) + sum(hb.values())
    dist = sum(abs(ha.get(k, 0) - hb.get(k, 0)) for k in set(ha) | set(hb))
    shape = 1.0 - dist / float(tot) if tot else 1.0
    if not sa and not sb:
        return shape
    return 0.6 * len(sa & sb) / float(len(sa | sb)) + 0.4 * shape


def load():
    try:
        return json.load(open(PATH))
    except Exception:
        return {}


def canonicalise(units):
    """returns the list of (file, current name, reference name) aliases applied"""
    ref = load()
    applied = []
    byfile = {}
    for u in units:
        for f in u.functions:
            byfile.setdefault(f.file, []).append(f)
    for file, fns in byfile.items():
        r = ref.get(file)
        if not r:
            continue
        cur = {f.name for f in fns}
        missing = [n for n in r if n not in cur]
        if not missing:
            continue
        new = {}
        for f in fns:
            if f.name not in r:
                new.setdefault(f.name, f)
        if not new:
            continue
        ignore = set(missing) | set(new)
        fps = {name: fingerprint(f) for name, f in new.items()}
        score = {}
        for m in missing:
            rf = r[m]
            for name, fp in fps.items():
                if fp["static"] == rf["static"] and fp["ret"] == rf["ret"] and fp["params"] == rf["params"]:
                    score[(m, name)] = similarity(rf, fp, ignore)
        for (m, name), sc in sorted(score.items(), key=lambda kv: -kv[1]):
            if sc < THRESHOLD:
                continue
            rivals = [v for (m2, n2), v in score.items() if (m2 == m) != (n2 == name)]
            best_rival = max(rivals) if rivals else 0.0
            # the pairing must be the best for both sides: by a margin, or as the only exact structural match
            if sc - best_rival >= MARGIN or (sc >= 0.999 and best_rival < 0.999):
                applied.append((file, name, m, r[m]["static"]))
    if not applied:
        return []
    for file, now, was, static in applied:
        for u in units:
            touches = (not static) or any(f.file == file for f in u.functions)
            if not touches:
                continue
            for f in u.functions:
                if f.file == file and f.name == now:
                    f.alias_of = now
                    f.name = was
                    f.d["name"] = was
                for n in f.nodes.values():
                    if n["k"] == "call" and n.get("callee") == now:
                        n["callee"] = was
                    elif n["k"] == "ref" and n.get("dk") == "function" and n.get("name") == now:
                        n["name"] = was
            for g in u.globals:
                for n in (g.get("nodes") or {}).values():
                    if n.get("k") == "ref" and n.get("dk") == "function" and n.get("name") == now:
                        n["name"] = was
    return [(file, now, was) for file, now, was, static in applied]
