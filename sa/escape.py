"""E7: escape / lifetime.

escapes(f, i): the value of pointer parameter i of f may be stored in a
location that outlives the call - a field reached through a pointer
dereference, a global, an element of a compound literal assigned through a
pointer - directly or through a callee whose parameter escapes.

stack_sources(f, nid): the address-of-local expressions an argument may
evaluate to (flow-insensitive over the function's assignments to local
pointer variables).
"""
from . import model as M

# library functions that keep their pointer argument beyond the call
# (index of the retained argument); everything else in libc/OpenSSL/c-ares is
# taken not to retain its arguments (trusted model; man pages)
RETAINING_EXT = {
    "ares_getaddrinfo": (5,), "ares_gethostbyname": (4,), "SSL_set_ex_data": (2,), "BIO_set_data": (1,),
    "SSL_set_app_data": (1,), "event_assign": (5,), "event_new": (4,), "pthread_create": (3,),
    "SSL_CTX_set_ex_data": (2,), "X509_STORE_CTX_set_ex_data": (2,), "setenv": (), "putenv": (0,),
    "ares_set_socket_callback": (2,), "ares_set_socket_configure_callback": (2,),
}


def _is_outliving_lhs(f, lhs):
    """does a store to lhs write memory that outlives f's frame?  True for
    x->fld, *p, p[i] with p a pointer (param/local pointer), globals; False
    for by-value locals and their fields."""
    x = f.strip(lhs)
    while True:
        n = f.nodes[x]
        k = n["k"]
        if k == "member":
            if not n["field"]:
                x = f.strip(n["base"])
                continue
            if n["arrow"]:
                return True
            x = f.strip(n["base"])
            continue
        if k == "index":
            b = f.sn(n["base"])
            # array local by value: stays in frame; pointer: outlives
            bt = (f.nodes[f.strip(n["base"], casts=False)].get("t") or b.get("t") or "")
            if b["k"] == "ref" and b["dk"] in ("local", "param") and "[" in (b.get("t") or ""):
                return False
            if b["k"] == "member":
                x = f.strip(n["base"])
                continue
            return True
        if k == "un" and n["op"] == "*":
            return True
        if k == "ref":
            return n["dk"] in ("global", "static_local")
        return False


def _refs_param(f, nid, pname, depth=0):
    """expression evaluates to (an offset of) parameter pname's value, or to a
    local that is only ever assigned from it"""
    n = f.sn(nid)
    if n["k"] == "ref":
        if n["dk"] == "param" and n["name"] == pname:
            return True
        return False
    if n["k"] == "bin" and n["op"] in ("+", "-"):
        return _refs_param(f, n["l"], pname, depth + 1)
    if n["k"] == "cond":
        return _refs_param(f, n["tv"], pname, depth + 1) or _refs_param(f, n["fv"], pname, depth + 1)
    return False


def _init_elems(f, nid):
    """leaf initialiser expressions of a (nested) init list / compound literal"""
    n = f.nodes[f.strip(nid)]
    if n["k"] == "compound":
        return _init_elems(f, n["sub"])
    if n["k"] == "init":
        out = []
        for e in n["elems"]:
            out.extend(_init_elems(f, e))
        return out
    return [nid]


class Escape:
    def __init__(self, prog):
        self.P = prog
        self.memo = {}
        self.why = {}

    def is_ptr_param(self, f, i):
        return "*" in (f.params[i].get("t") or "")

    def escapes(self, f, i, stack=()):
        key = (f.key, i)
        if key in self.memo:
            return self.memo[key]
        if key in stack:
            return False
        self.memo[key] = False
        pname = f.params[i]["name"]
        res = False
        # locals that alias the parameter (single assignment p2 = p)
        names = {pname}
        changed = True
        while changed:
            changed = False
            for nid, n in f.nodes.items():
                if n["k"] == "decl":
                    for v in n["vars"]:
                        if v.get("init") is not None and v["name"] not in names and "*" in (v.get("t") or ""):
                            if any(self._refs_any(f, v["init"], names)):
                                names.add(v["name"])
                                changed = True
        for nid, n in f.nodes.items():
            k = n["k"]
            if k == "bin" and n["op"] == "=":
                rhs_leaves = _init_elems(f, n["r"])
                if any(any(self._refs_any(f, e, names)) for e in rhs_leaves):
                    if _is_outliving_lhs(f, n["l"]):
                        res = True
                        self.why[key] = "stored by `%s` at %s" % (f.show(nid)[:90], f.loc(nid))
                        break
            elif k == "call":
                defs, exts = self.P.callees(f, nid)
                for ai, a in enumerate(n["args"]):
                    if not any(self._refs_any(f, a, names)):
                        continue
                    for d in defs:
                        if ai < len(d.params) and self.escapes(d, ai, stack + (key,)):
                            res = True
                            self.why[key] = "passed to %s (%s)" % (d.name, self.why.get((d.key, ai), "escapes"))
                    for x in exts:
                        if ai in RETAINING_EXT.get(x, ()):
                            res = True
                            self.why[key] = "retained by %s()" % x
                if res:
                    break
        self.memo[key] = res
        return res

    def _refs_any(self, f, nid, names):
        for nm in names:
            n = f.sn(nid)
            if n["k"] == "ref" and n["dk"] in ("param", "local") and n["name"] == nm:
                yield True
                return
            if n["k"] == "bin" and n["op"] in ("+", "-"):
                if any(self._refs_any(f, n["l"], names)):
                    yield True
                    return
            if n["k"] == "cond":
                if any(self._refs_any(f, n["tv"], names)) or any(self._refs_any(f, n["fv"], names)):
                    yield True
                    return
        return

    # ------------------------------------------------------------------
    def stack_sources(self, f, nid, depth=0, seen=None):
        """list of (local name, node id of the &local expression) the value of
        expression nid may be"""
        seen = seen if seen is not None else set()
        if depth > 6:
            return []
        n = f.sn(nid)
        k = n["k"]
        if k == "un" and n["op"] == "&":
            b = self._base_local(f, n["sub"])
            return [(b, nid)] if b else []
        if k == "ref":
            if n["dk"] == "local" and "[" in (n.get("t") or "") and "*" not in (n.get("t") or "").split("[")[0][-2:]:
                return [(n["name"], nid)]        # array local decays to its address
            if n["dk"] == "local" and n["did"] not in seen:
                seen.add(n["did"])
                out = []
                for m in f.nodes.values():
                    if m["k"] == "decl":
                        for v in m["vars"]:
                            if v["did"] == n["did"] and v.get("init") is not None:
                                out += self.stack_sources(f, v["init"], depth + 1, seen)
                    elif m["k"] == "bin" and m["op"] == "=" and f.sn(m["l"]).get("did") == n["did"] and f.sn(m["l"])["k"] == "ref":
                        out += self.stack_sources(f, m["r"], depth + 1, seen)
                return out
            return []
        if k == "cond":
            return self.stack_sources(f, n["tv"], depth + 1, seen) + self.stack_sources(f, n["fv"], depth + 1, seen)
        if k == "bin" and n["op"] in ("+", "-"):
            return self.stack_sources(f, n["l"], depth + 1, seen)
        if k == "member" and not n.get("arrow") and "[" in (n.get("t") or ""):
            b = self._base_local(f, nid)
            return [(b, nid)] if b else []
        return []

    def _base_local(self, f, nid):
        """the by-value local an lvalue lives in, or None"""
        x = f.strip(nid)
        while True:
            n = f.nodes[x]
            if n["k"] == "ref":
                return n["name"] if n["dk"] == "local" else None
            if n["k"] == "member":
                if n["field"] and n["arrow"]:
                    return None
                x = f.strip(n["base"])
                continue
            if n["k"] == "index":
                b = f.sn(n["base"])
                if b["k"] == "ref" and "[" not in (b.get("t") or ""):
                    return None
                x = f.strip(n["base"])
                continue
            return None
