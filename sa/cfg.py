"""CFG utilities: labelled edges, dominators, reachability, condition atoms and
a small path-sensitive abstract interpreter (worklist over (block, state))."""
from collections import defaultdict, deque

COND_TERMS = {"IfStmt", "WhileStmt", "ForStmt", "DoStmt", "&&", "||",
              "ConditionalOperator", "BinaryConditionalOperator"}


def edges(fn, b):
    """labelled out-edges of block b: list of (succ id, label).  label is 'T' /
    'F' for two-way branches, ('case', value, name) / ('default',) for switch
    edges, None for fall-through.  Edges clang proved infeasible (NULL) are
    skipped; edges out of a noreturn block are dropped."""
    blk = fn.blocks[b] if isinstance(b, int) else b
    if blk.noreturn:
        return []
    t = blk.term
    out = []
    if t and t["k"] in COND_TERMS and len(blk.succs) == 2:
        for s, lab in zip(blk.succs, ("T", "F")):
            if s is not None:
                out.append((s, lab))
        return out
    if t and t["k"] == "SwitchStmt":
        for s in blk.succs:
            if s is None:
                continue
            lab = fn.blocks[s].label
            if lab and lab["kind"] == "case":
                out.append((s, ("case", lab.get("value"), lab.get("name"))))
            elif lab and lab["kind"] == "default":
                out.append((s, ("default",)))
            else:
                out.append((s, ("default",)))   # implicit default: after the switch
        return out
    for s in blk.succs:
        if s is not None:
            out.append((s, None))
    return out


def succs(fn, b):
    return [s for s, _ in edges(fn, b)]


def reachable_blocks(fn, start=None, avoid=()):
    start = fn.entry if start is None else start
    seen = set()
    st = [start] if start not in avoid else []
    while st:
        b = st.pop()
        if b in seen:
            continue
        seen.add(b)
        for s in succs(fn, b):
            if s not in seen and s not in avoid:
                st.append(s)
    return seen


def dominators(fn):
    """block -> set of dominators (iterative; CFGs here are small)."""
    blocks = list(reachable_blocks(fn))
    allb = set(blocks)
    dom = {b: set(allb) for b in blocks}
    dom[fn.entry] = {fn.entry}
    preds = defaultdict(list)
    for b in blocks:
        for s in succs(fn, b):
            preds[s].append(b)
    changed = True
    order = blocks
    while changed:
        changed = False
        for b in order:
            if b == fn.entry:
                continue
            ps = [dom[p] for p in preds[b] if p in dom]
            new = set.intersection(*ps) if ps else set()
            new = new | {b}
            if new != dom[b]:
                dom[b] = new
                changed = True
    return dom


def cond_atom(fn, nid, taken=True):
    """Normalise a branch condition to (lhs id, op, rhs id|('const', v)) with
    negations folded in; a bare value e becomes (e, '!=', ('const', 0)).
    Returned op is what holds on the taken edge."""
    neg = not taken
    while True:
        nid = fn.strip(nid, casts=False)
        n = fn.nodes[nid]
        if n["k"] == "cast" and n["ck"] in ("IntegralToBoolean", "PointerToBoolean", "IntegralCast", "LValueToRValue", "NoOp"):
            nid = n["sub"]
            continue
        if n["k"] == "un" and n["op"] == "!":
            neg = not neg
            nid = n["sub"]
            continue
        # __builtin_expect(x, c)
        if n["k"] == "call" and n.get("callee") == "__builtin_expect":
            nid = n["args"][0]
            continue
        break
    n = fn.nodes[nid]
    NEG = {"==": "!=", "!=": "==", "<": ">=", ">=": "<", ">": "<=", "<=": ">"}
    if n["k"] == "bin" and n["op"] in NEG:
        op = NEG[n["op"]] if neg else n["op"]
        return (n["l"], op, n["r"])
    return (nid, "==" if neg else "!=", ("const", 0))


def const_of(fn, x):
    """integer constant of a node id / ('const', v), else None"""
    if isinstance(x, tuple):
        return x[1]
    n = fn.nodes[fn.strip(x)]
    if "cv" in n:
        return n["cv"]
    n0 = fn.nodes[x]
    if "cv" in n0:
        return n0["cv"]
    # NULL: (void *)0
    if n["k"] == "int":
        return n["v"]
    return None


def outcome(op, c):
    """classify `value op c` into a sign/nullness class of value."""
    if c == 0:
        return {"<": "neg", ">=": "nonneg", "==": "zero", "!=": "nonzero", ">": "pos", "<=": "nonpos"}[op]
    if c == 1 and op == "<":
        return "nonpos"
    if c == 1 and op == ">=":
        return "pos"
    if c == -1 and op == "==":
        return "neg"
    if c == -1 and op == "!=":
        return "nonneg?"
    if c == -1 and op == ">":
        return "nonneg"
    if c == -1 and op == "<=":
        return "neg"
    return None


SWAP = {"<": ">", ">": "<", "<=": ">=", ">=": "<=", "==": "==", "!=": "!="}


class Rule:
    """Base class of path-sensitive rules run by `explore`.  States must be
    hashable.  Return None from a hook to leave the state unchanged; return
    DEAD to prune the path; return a list to fork."""

    def initial(self, fn):
        return ()

    def elem(self, fn, st, nid, blk, idx):
        return None

    def branch(self, fn, st, blk, cond, label):
        return None

    def at_return(self, fn, st, nid):
        return None

    def at_exit(self, fn, st, blk):
        pass

    def at_abort(self, fn, st, blk):
        pass


DEAD = object()


def explore(fn, rule, max_states=200000, entry_state=None):
    """Worklist over (block, state).  Fully path-sensitive in the rule's
    abstract state (finite), merging identical states per block."""
    init = rule.initial(fn) if entry_state is None else entry_state
    seen = defaultdict(set)
    work = deque([(fn.entry, init)])
    seen[fn.entry].add(init)
    n = 0
    while work:
        b, st = work.popleft()
        n += 1
        if n > max_states:
            raise RuntimeError("state explosion in %s" % fn.name)
        blk = fn.blocks[b]
        states = [st]
        for idx, e in enumerate(blk.elems):
            nxt = []
            for s in states:
                r = rule.elem(fn, s, e, blk, idx)
                if r is None:
                    nxt.append(s)
                elif r is DEAD:
                    continue
                elif isinstance(r, list):
                    nxt.extend(x for x in r if x is not DEAD)
                else:
                    nxt.append(r)
            states = nxt
            if not states:
                break
        if not states:
            continue
        if blk.noreturn:
            for s in states:
                rule.at_abort(fn, s, blk)
            continue
        if b == fn.exit:
            for s in states:
                rule.at_exit(fn, s, blk)
            continue
        es = edges(fn, blk)
        cond = blk.term.get("cond") if blk.term else None
        for s in states:
            for succ, lab in es:
                s2 = s
                if lab is not None and (cond is not None or lab not in ("T", "F")):
                    r = rule.branch(fn, s, blk, cond, lab)
                    if r is DEAD:
                        continue
                    if r is not None:
                        s2 = r
                if s2 not in seen[succ]:
                    seen[succ].add(s2)
                    work.append((succ, s2))
    return seen


def must_pass(fn, from_blocks, through_pred, to_pred=None):
    """True iff every path from any block in from_blocks to function exit (or
    to a block satisfying to_pred) passes a block satisfying through_pred.
    Aborting paths are ignored.  Block-granular."""
    seen = set()
    st = list(from_blocks)
    while st:
        b = st.pop()
        if b in seen:
            continue
        seen.add(b)
        if through_pred(b):
            continue
        if b == fn.exit or (to_pred and to_pred(b)):
            return False
        for s in succs(fn, b):
            st.append(s)
    return True


def only_via_edge(fn, b, label):
    """blocks that can be reached from the entry only through the out-edge of
    block b with the given label (control dependence on that outcome)."""
    blk = fn.blocks[b] if isinstance(b, int) else b
    full = reachable_blocks(fn)
    seen = set()
    st = [fn.entry]
    while st:
        x = st.pop()
        if x in seen:
            continue
        seen.add(x)
        for s, lab in edges(fn, x):
            if x == blk.id and lab == label:
                continue
            st.append(s)
    return full - seen


def cond_blocks(fn):
    """(block, cond node id) of every two-way branch"""
    for b in fn.blocks.values():
        if b.term and b.term.get("cond") is not None and len(b.succs) == 2 and b.term["k"] in COND_TERMS:
            yield b, b.term["cond"]


def sccs(fn):
    """strongly connected components with at least one edge (loops), as sets
    of block ids (Tarjan, iterative enough for these CFGs)."""
    import sys
    index = {}
    low = {}
    onst = set()
    stack = []
    out = []
    counter = [0]
    sys.setrecursionlimit(max(sys.getrecursionlimit(), 10000))

    def strong(v):
        index[v] = low[v] = counter[0]
        counter[0] += 1
        stack.append(v)
        onst.add(v)
        for w in succs(fn, v):
            if w not in index:
                strong(w)
                low[v] = min(low[v], low[w])
            elif w in onst:
                low[v] = min(low[v], index[w])
        if low[v] == index[v]:
            comp = set()
            while True:
                w = stack.pop()
                onst.discard(w)
                comp.add(w)
                if w == v:
                    break
            if len(comp) > 1 or v in succs(fn, v):
                out.append(comp)
    for b in reachable_blocks(fn):
        if b not in index:
            strong(b)
    return out
