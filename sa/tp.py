"""Transport roles derived from the resolved program (never from names of
static helpers): ops tables, messaging vs byte-stream, private structs,
counter updates, sub-socket fields."""
from .model import GlobalInit
from .report import Broken


class Table:
    def __init__(self, gname, unit, slots, proto):
        self.gname, self.unit, self.slots, self.proto = gname, unit, slots, proto

    @property
    def messaging(self):
        return self.slots.get("max_msg") is not None

    def __repr__(self):
        return "<ops %s proto=%s>" % (self.gname, self.proto)


def ops_tables(P):
    out = []
    for g in P.globals:
        if "struct xcm_tp_ops" not in (g.get("t") or "") or "init" not in g:
            continue
        gi = GlobalInit(g, g["_unit"])
        n = gi.nodes[gi.strip(g["init"])]
        if n["k"] != "init":
            continue
        slots = {}
        for fld, e in zip(n.get("fields", []), n["elems"]):
            m = gi.nodes[gi.strip(e)]
            if m["k"] == "ref" and m["dk"] == "function":
                f = P.by_unit_name.get((g["_unit"].file, g["_unit"].product, m["name"]))
                slots[fld] = f
            else:
                slots[fld] = None
        out.append(Table(g["name"], g["_unit"], slots, None))
    # protocol names: xcm_tp_register("<literal>", &table)
    for f in P.functions:
        for c in f.calls("xcm_tp_register"):
            n = f.nodes[c]
            a0, a1 = f.sn(n["args"][0]), f.sn(n["args"][1])
            if a0["k"] == "str" and a1["k"] == "un":
                tn = f.sn(a1["sub"]).get("name")
                for t in out:
                    if t.gname == tn and t.unit.file == f.unit.file:
                        if t.proto is None:
                            t.proto = a0["v"]
                        else:
                            # one table registered under two names (ux / uxf share code through distinct tables usually)
                            out.append(Table(t.gname, t.unit, t.slots, a0["v"]))
    if len(out) < 6:
        raise Broken("only %d transport ops tables found" % len(out))
    return out


def is_counter_store(f, lhs):
    """lhs is cnts[xcm_tp_cnt_*]: -> enumerator name or None"""
    n = f.sn(lhs)
    if n["k"] != "index":
        return None
    i = f.sn(n["idx"])
    if i["k"] == "ref" and i["dk"] == "enumconst" and i["name"].startswith("xcm_tp_cnt_"):
        return i["name"]
    return None


def priv_ptr_vars(f):
    """locals/params of f that point to a transport's private struct"""
    out = set()
    for nid, n in f.nodes.items():
        if n["k"] == "decl":
            for v in n["vars"]:
                t = v.get("t") or ""
                if t.startswith("struct ") and t.rstrip().endswith("_socket *") and "xcm_socket" not in t:
                    out.add(v["name"])
    return out


def is_priv_store(f, lhs, privs):
    p = f.apath(lhs)
    r = p[0]
    return r[0] == "var" and r[2] in privs and len(p) > 1


def mentions_field(f, nid, field, _depth=0):
    for x in f.walk(nid):
        n = f.nodes[x]
        if n["k"] == "member" and n["field"] == field:
            return True
        if n["k"] == "ref" and n.get("dk") == "local" and _depth < 4:
            src = f.copy_src(x)          # a named temporary is read through (model.Function.copy_src)
            if src is not None and mentions_field(f, src, field, _depth + 1):
                return True
    return False


def conn_update_fn(P, t):
    """The connection-side update helper of a byte-stream transport, found by role and
    not by name: the function reachable from the table's update slot, defined in the same
    file, that switches on the connection's `state` field and drives the bell."""
    from . import cfg as C
    root = t.slots["update"]
    seen, work, out = {root.key}, [root], []
    while work:
        f = work.pop()
        sw = [b for b in f.blocks.values() if b.term and b.term["k"] == "SwitchStmt" and b.term.get("cond") is not None
              and f.fields_of(b.term["cond"])[-1:] == ("state",)]
        if sw and any(True for _ in f.calls("xpoll_bell_reg_mod")):
            out.append(f)
        for c in f.calls():
            defs, _ = P.callees(f, c)
            for d in defs:
                if d.key not in seen and d.file == root.file:
                    seen.add(d.key)
                    work.append(d)
    return out
